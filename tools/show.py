#!/usr/bin/env python3
import json, sys
for p in sys.argv[1:]:
    d=json.load(open(p)); t=d.get('trace',d)
    c=t['config']
    def fmt(o):
        op=o['op']
        if isinstance(op,str): s=op
        else:
            (k,v),=op.items()
            if k=='Insert': s=f"ins({v['k']},v{v['vid']},w{v['w']})"
            elif k=='Advance': s=f"adv({v['ns']/1e9:g}s)" if v['ns']>=1e6 else f"adv({v['ns']}ns)"
            elif k in('Get','Contains','Invalidate'): s=f"{k.lower()}({v['k']})"
            else: s=f"{k}{v}"
        if 'f' in o: s+='!'+json.dumps(o['f'])
        return s
    print(p.split('/')[-1])
    print('  cfg:', {k:v for k,v in c.items() if v is not None and v is not False and v != 'Fixed'}, 'extra', t.get('extra') or '', 'sched', t.get('schedule') or '')
    for i,th in enumerate(t['threads']):
        print(f'  T{i}:', ' ; '.join(fmt(o) for o in th))
    if 'message' in d: print('  =>', d['rule'], d['message'][:300])
    if d.get('probes'): print('  probes', d['probes'])
