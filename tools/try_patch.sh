#!/bin/bash
# Development aid: run checks with an ad-hoc plan against a patched scratch worktree of /repo.
#   try_patch.sh <patch-file|none> <slot> <Cxx> <pop:n,pop:n> [<Cxx> <plan> ...]
# Uses /scratch/try<slot>/{repo,verif,target}; nothing under /repo or /verif is modified.
set -u
P=$1; SLOT=$2; shift 2
E=/scratch/try$SLOT; R=$E/repo
mkdir -p $E
[ -d $R ] || git -C /repo worktree add -q --detach $R HEAD
cd $R && git reset -q --hard && git checkout -q --detach $(git -C /repo rev-parse HEAD)
if [ "$P" != none ]; then git -C $R apply $P || { echo APPLY-FAILED; exit 3; }; fi
mkdir -p $E/verif && rsync -a --delete --exclude target --exclude 'target-*' --exclude work --exclude replays --exclude .git --exclude seeded /verif/ $E/verif/
sed -i "s#path = \"/repo\"#path = \"$R\"#" $E/verif/sim/Cargo.toml
while [ $# -ge 2 ]; do
  C=$1; PLAN=$2; shift 2
  ( cd $E/verif && VERIF_PLAN=$PLAN VERIF_TARGET=$E/target timeout 1500 ./check $C --tier quick 2>&1 | grep -E "^(VIOLATION|KNOWN|HARNESS)|quick:|^  C[0-9]" | cut -c1-400 | head -20 )
done
