#!/bin/bash
# Line coverage of /repo/src reached by the simulator's populations (a "reach" measure: which code of the
# library do the simulated runs execute at all?).   coverage.sh [runs-per-population]   -> work/coverage/
set -u
N=${1:-3000}
V=/verif; OUT=$V/work/coverage; rm -rf $OUT; mkdir -p $OUT/raw
BIN=$(rustc +nightly --print sysroot)/lib/rustlib/x86_64-unknown-linux-gnu/bin
( cd $V/sim && CARGO_NET_OFFLINE=true CARGO_TARGET_DIR=$V/target-cov RUSTFLAGS="--cfg mini_moka_verif -C instrument-coverage" \
  cargo +nightly build --release --offline 2>&1 | tail -1 )
M=$V/target-cov/release/mmsim
POPS="seq-mixed seq-expiry seq-inval seq-policy seq-callback seq-long seq-wide seq-huge pair thr-mixed thr-strict thr-expiry thr-sweep thr-callback thr-warm thr-inval thr-iter thr-iter-mixed thr-long thr-wlock burst"
i=0
for p in $POPS; do
  n=$N; case $p in seq-long|seq-wide) n=$((N/20));; burst) n=$((N/20));; esac
  for w in 0 1 2 3; do
    lo=$((w*n/4)); hi=$(((w+1)*n/4))
    LLVM_PROFILE_FILE=$OUT/raw/$p-$w.profraw $M batch --pop $p --prop C08 --seed 1 --from $lo --to $hi > /dev/null 2>&1 &
  done
  wait
done
$BIN/llvm-profdata merge -sparse $OUT/raw/*.profraw -o $OUT/all.profdata
$BIN/llvm-cov report $M -instr-profile=$OUT/all.profdata $(ls /repo/src/*.rs /repo/src/*/*.rs /repo/src/*/*/*.rs | grep -v verif.rs) 2>/dev/null > $OUT/report.txt
$BIN/llvm-cov show $M -instr-profile=$OUT/all.profdata --show-line-counts-or-regions $(ls /repo/src/sync/*.rs /repo/src/unsync/*.rs /repo/src/common/*.rs /repo/src/common/concurrent/*.rs) 2>/dev/null > $OUT/show.txt
cat $OUT/report.txt
