#!/bin/bash
# Evaluate one seeded change in a scratch worktree + scratch copy of the harness.
#   eval_seeded.sh <id> <check> [<check> ...]
# Steps: (1) patch applies; (2) crate builds and the existing suite passes with it; (3) the demo fails with
# the change and passes without; (4) the named checks are run against the changed tree.
set -u
ID=$1; shift
S=/verif/seeded/$ID
E=${EVAL_DIR:-/scratch/eval}
R=$E/repo
OUT=$S/eval.log
: > $OUT
mkdir -p $E
[ -d $R ] || git -C /repo worktree add -q --detach $R HEAD
cd $R && git reset -q --hard && git clean -fdq tests >/dev/null 2>&1
git -C $R checkout -q --detach $(git -C /repo rev-parse HEAD) 2>>$OUT
if ! git -C $R apply --check $S/patch.diff 2>>$OUT; then
  echo "$ID APPLY-FAILED" | tee -a $OUT; exit 3
fi
git -C $R apply $S/patch.diff
# existing suite with the change
( cd $R && cargo test --offline 2>&1 | grep -E "^test result|error(\[|:)" ) > $E/suite.txt 2>&1
if grep -q "FAILED\|error" $E/suite.txt || ! grep -q "35 passed" $E/suite.txt; then echo "$ID SUITE-FAILS-WITH-CHANGE" | tee -a $OUT; cat $E/suite.txt >> $OUT; fi
echo "suite with change: $(grep -c 'test result: ok' $E/suite.txt) ok result lines" >> $OUT
# demos that use the simulated clock need the guard
DEMOFLAGS=""
grep -q "mini_moka_verif\|VerifClock" $S/demo.rs && DEMOFLAGS="--cfg mini_moka_verif"
# demo with change
cp $S/demo.rs $R/tests/seeded_demo.rs
( cd $R && RUSTFLAGS="$DEMOFLAGS" timeout 600 cargo test --offline --test seeded_demo 2>&1 | tail -15 ) > $E/demo_with.txt 2>&1
WITH=$(grep -E "^test result" $E/demo_with.txt | head -1)
[ -z "$WITH" ] && WITH="(no result line: $(tail -2 $E/demo_with.txt | tr '\n' ' '))"
# checks against the changed tree
mkdir -p $E/verif && SRC=$(cat ${VERIF_SRC_FILE:-/scratch/VERIF_SRC} 2>/dev/null || echo /verif)  # a frozen snapshot while /verif is being edited
rsync -a --delete --exclude target --exclude 'target-*' --exclude work --exclude replays --exclude .git --exclude seeded $SRC/ $E/verif/
sed -i "s#path = \"/repo\"#path = \"$R\"#" $E/verif/sim/Cargo.toml

rm -f $R/tests/seeded_demo.rs
RES=""
for C in "$@"; do
  ( cd $E/verif && VERIF_TARGET=$E/target timeout 1500 ./check $C --tier quick > $E/check_$C.txt 2>&1 ); rc=$?
  NV=$(grep -c "^VIOLATION" $E/check_$C.txt)
  RES="$RES $C:rc=$rc,viol=$NV"
  echo "--- check $C rc=$rc" >> $OUT; grep -E "^(VIOLATION|KNOWN|HARNESS)|quick:|^  C[0-9]" $E/check_$C.txt | cut -c1-300 | head -12 >> $OUT
  mkdir -p $S/replays; for f in $(grep "^VIOLATION" $E/check_$C.txt | sed 's/.*replay=//' | head -2); do cp $f $S/replays/ 2>/dev/null; done
done
# demo without change
git -C $R reset -q --hard
cp $S/demo.rs $R/tests/seeded_demo.rs
( cd $R && RUSTFLAGS="$DEMOFLAGS" timeout 600 cargo test --offline --test seeded_demo 2>&1 | tail -15 ) > $E/demo_without.txt 2>&1
WITHOUT=$(grep -E "^test result" $E/demo_without.txt | head -1)
rm -f $R/tests/seeded_demo.rs
echo "demo with change:    $WITH" >> $OUT
echo "demo without change: $WITHOUT" >> $OUT
echo "$ID | with: $WITH | without: $WITHOUT |$RES" | tee -a $OUT
