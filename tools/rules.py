#!/usr/bin/env python3
"""Quick triage helper: run one batch in-process and count violations per rule (all properties)."""
import json, subprocess, sys, collections
pop = sys.argv[1]; n = int(sys.argv[2]); seed = sys.argv[3] if len(sys.argv) > 3 else "1"
kindf = sys.argv[4] if len(sys.argv) > 4 else None
cnt = collections.Counter(); first = {}
out = subprocess.run(["/verif/target/release/mmsim","batch","--pop",pop,"--prop","","--seed",seed,"--from","0","--to",str(n)],capture_output=True,text=True)
last=None
for line in out.stdout.splitlines():
    if line.startswith("S "): last=line
    if line.startswith("SUMMARY "):
        s = json.loads(line[8:])
        for r,c in sorted(s["other_violations"].items()):
            print(f"{c:8d} {r}")
        print("evals", s["evaluations"])
        break
else:
    print("no summary; last", last, out.stderr[-2000:], out.returncode)
