#!/usr/bin/env python3
"""Builds seeded/<id>/meta.json from the author's meta (meta.agent.json) and the evaluation log (eval.log)."""
import json, os, re, subprocess, glob, sys
ONLY = set(sys.argv[1:])  # optional: only these ids
base = subprocess.run(["git","-C","/repo","rev-parse","--short","HEAD"],capture_output=True,text=True).stdout.strip()
rows=[]
for d in sorted(glob.glob('/verif/seeded/C*-*')):
    idn=os.path.basename(d)
    if ONLY and idn not in ONLY:
        continue
    a=json.load(open(d+'/meta.agent.json')) if os.path.exists(d+'/meta.agent.json') else {}
    log=open(d+'/eval.log').read() if os.path.exists(d+'/eval.log') else ''
    checks={}
    cur=None
    for line in log.splitlines():
        m=re.match(r'--- check (C\d+) rc=(\d+)', line)
        if m:
            cur=m.group(1); checks[cur]={"exit_code":int(m.group(2)),"violations":0,"rules":[]}; continue
        if cur and line.startswith('VIOLATION'): checks[cur]["violations"]+=1
        m=re.match(r'  (C\d+\.[a-z0-9-]+):', line)
        if cur and m and m.group(1) not in checks[cur]["rules"]: checks[cur]["rules"].append(m.group(1))
    dw=re.search(r'demo with change:\s+(.*)',log); dwo=re.search(r'demo without change:\s+(.*)',log)
    suite='SUITE-FAILS' not in log
    caught=[c for c,v in checks.items() if v["exit_code"]==1 and v["violations"]>0]
    meta={
      "id": idn, "property": a.get("property", idn.split('-')[0]),
      "summary": a.get("summary",""), "needs": a.get("needs",""),
      "author": "independent sub-agent given only the property text and a scratch worktree of /repo",
      "patch": "patch.diff" + (" (re-based by hand onto the current /repo HEAD after later fix: commits touched the same lines; the author's original is patch.orig.diff)" if os.path.exists(d+'/patch.orig.diff') else ""),
      "demo": "demo.rs (copy to tests/ of a worktree and run `cargo test --offline --test <name>`)",
      "confirmed": {
         "repo_commit": base,
         "how": "tools/eval_seeded.sh: scratch worktree of /repo + scratch copy of /verif (path dependency redirected); patch applied with git apply; `cargo test --offline`; demo with and without the change; then the named checks (quick tier) against the changed tree",
         "existing_suite_passes_with_change": suite,
         "demo_with_change": dw.group(1) if dw else None,
         "demo_without_change": dwo.group(1) if dwo else None},
      "checks_run": checks, "caught_by": caught,
    }
    if os.path.exists(d+'/note.txt'): meta["note"]=open(d+'/note.txt').read().strip()
    json.dump(meta,open(d+'/meta.json','w'),indent=1)
    rows.append((idn, ','.join(caught) or '-', (dw.group(1)[:28] if dw else '?'), (dwo.group(1)[:22] if dwo else '?')))
for r in rows: print('%-7s caught_by=%-12s with=%-30s without=%s'%r)
