#!/bin/bash
# Sensitivity proof, reverse direction: re-introduce each repaired defect in a scratch worktree and run the named checks.
# usage: run_mutants.sh [patch-name-substring]
set -u
E=${VERIF_SCRATCH:-/scratch/eval}
R=$E/repo
mkdir -p $E
[ -d $R ] || git -C /repo worktree add -q --detach $R HEAD
RES=/verif/mutants/results.txt
FILTER=${1:-}
python3 - "$FILTER" <<'PY' > $E/mutlist.txt
import json,sys
f=sys.argv[1]
for m in json.load(open('/verif/mutants/index.json'))['mutants']:
    if f in m['patch']: print(m['patch'], ' '.join(m['checks']))
PY
while read P CHECKS; do
  cd $R && git reset -q --hard && git checkout -q --detach $(git -C /repo rev-parse HEAD)
  if ! git -C $R apply /verif/mutants/$P 2>$E/apply.err; then echo "$P APPLY-FAILED $(head -1 $E/apply.err)" | tee -a $RES; continue; fi
  ( cd $R && cargo test --offline 2>&1 | grep -E "^test result" ) > $E/suite.txt 2>&1
  SUITE=$(grep -c "35 passed" $E/suite.txt)
  mkdir -p $E/verif && rsync -a --delete --exclude target --exclude 'target-*' --exclude work --exclude replays --exclude .git --exclude seeded /verif/ $E/verif/
  sed -i "s#path = \"/repo\"#path = \"$R\"#" $E/verif/sim/Cargo.toml
  LINE="$P suite35=$SUITE"
  for C in $CHECKS; do
    ( cd $E/verif && timeout 1500 ./check $C --tier quick > $E/mcheck_$C.txt 2>&1 ); rc=$?
    NV=$(grep -c "^VIOLATION" $E/mcheck_$C.txt)
    RULES=$(grep -E "^  C[0-9]+\." $E/mcheck_$C.txt | sed 's/^  \(C[0-9]*\.[a-z-]*\).*/\1/' | sort | uniq -c | tr '\n' ' ')
    LINE="$LINE | $C rc=$rc viol=$NV [$RULES]"
  done
  echo "$LINE" | tee -a $RES
  git -C $R reset -q --hard
done < $E/mutlist.txt
