#!/bin/bash
# Runs every registered quick check under several VERIF_SEED values on the current tree and reports anything
# that is not quiet (used to look for false alarms / unrecorded findings before committing).
SEEDS=${1:-"2 3 4 5 6"}
for s in $SEEDS; do
  for c in C01 C02 C03 C04 C05 C06 C07 C08 C09 C10 C11 C12 C13 C15 C16; do
    out=$(cd /verif && VERIF_SEED=$s ./check $c --tier quick 2>&1)
    rc=$?
    echo "seed=$s $c rc=$rc $(echo "$out" | grep -E "quick:" | sed 's/.*quick: //')"
    if [ $rc -ne 0 ]; then echo "$out" | grep -E "^(VIOLATION|HARNESS|  C[0-9])" | cut -c1-400; mkdir -p /scratch/sweep/$s-$c; cp -r /verif/replays/$c/* /scratch/sweep/$s-$c/ 2>/dev/null; fi
  done
done
echo SWEEP-DONE
