#!/bin/bash
# Re-runs only the demonstration of a seeded change (with and without the change) and rewrites the two
# "demo with/without change" lines of its eval.log.   confirm_demo.sh <id>
set -u
ID=$1; S=/verif/seeded/$ID; E=${EVAL_DIR:-/scratch/eval}; R=$E/repo
mkdir -p $E; [ -d $R ] || git -C /repo worktree add -q --detach $R HEAD
cd $R && git reset -q --hard && git clean -fdq tests >/dev/null 2>&1
git -C $R checkout -q --detach $(git -C /repo rev-parse HEAD)
git -C $R apply $S/patch.diff || { echo "$ID APPLY-FAILED"; exit 3; }
DEMOFLAGS=""; grep -q "mini_moka_verif\|VerifClock" $S/demo.rs && DEMOFLAGS="--cfg mini_moka_verif"
cp $S/demo.rs $R/tests/seeded_demo.rs
W=$( cd $R && RUSTFLAGS="$DEMOFLAGS" timeout 900 cargo test --offline --test seeded_demo 2>&1 | grep -E "^test result|could not compile" | head -1 )
git -C $R reset -q --hard; cp $S/demo.rs $R/tests/seeded_demo.rs
WO=$( cd $R && RUSTFLAGS="$DEMOFLAGS" timeout 900 cargo test --offline --test seeded_demo 2>&1 | grep -E "^test result|could not compile" | head -1 )
rm -f $R/tests/seeded_demo.rs
sed -i "/^demo with change:/d;/^demo without change:/d" $S/eval.log
echo "demo with change:    $W" >> $S/eval.log
echo "demo without change: $WO" >> $S/eval.log
echo "$ID | with: $W | without: $WO"
