//! Instrumented key/value types, the drop registry and the deterministic hashers.

use std::hash::{BuildHasher, Hash, Hasher};
use std::sync::{Arc, Mutex};

use serde::{Deserialize, Serialize};

/// Payload of the panics the harness injects through caller callbacks.
pub const INJECTED_PANIC: &str = "mmsim-injected-callback-panic";

#[derive(Default)]
struct RegInner {
    /// drops[id] = number of times object `id` was dropped.
    drops: Vec<u8>,
    /// is_key[id]
    is_key: Vec<bool>,
    live_keys: i64,
    live_vals: i64,
    double_drops: Vec<u32>,
    /// Countdown of V::clone calls until an injected panic (<0: disabled).
    clone_panic_in: i64,
    /// Countdown of weigher calls until an injected panic (<0: disabled).
    weigh_panic_in: i64,
    /// Countdown of predicate evaluations until an injected panic (<0: disabled).
    pred_panic_in: i64,
    pred_injected: u32,
    injected: u32,
}

/// Per-run registry of every tracked key/value object.
pub struct Registry {
    inner: Mutex<RegInner>,
}

impl Registry {
    pub fn new() -> Arc<Self> {
        Arc::new(Registry {
            inner: Mutex::new(RegInner {
                clone_panic_in: -1,
                weigh_panic_in: -1,
                pred_panic_in: -1,
                pred_injected: 0,
                ..Default::default()
            }),
        })
    }

    fn lock(&self) -> std::sync::MutexGuard<'_, RegInner> {
        self.inner.lock().unwrap_or_else(|e| e.into_inner())
    }

    fn create(&self, is_key: bool) -> u32 {
        let mut r = self.lock();
        let id = r.drops.len() as u32;
        r.drops.push(0);
        r.is_key.push(is_key);
        if is_key {
            r.live_keys += 1;
        } else {
            r.live_vals += 1;
        }
        id
    }

    fn dropped(&self, id: u32) {
        let mut r = self.lock();
        let i = id as usize;
        r.drops[i] = r.drops[i].saturating_add(1);
        if r.drops[i] > 1 {
            r.double_drops.push(id);
        } else if r.is_key[i] {
            r.live_keys -= 1;
        } else {
            r.live_vals -= 1;
        }
    }

    pub fn live_keys(&self) -> i64 {
        self.lock().live_keys
    }
    pub fn live_vals(&self) -> i64 {
        self.lock().live_vals
    }
    pub fn created(&self) -> usize {
        self.lock().drops.len()
    }
    pub fn double_drops(&self) -> Vec<u32> {
        self.lock().double_drops.clone()
    }
    /// Ids of objects never dropped.
    pub fn leaked(&self) -> Vec<(u32, bool)> {
        let r = self.lock();
        r.drops
            .iter()
            .enumerate()
            .filter(|(_, d)| **d == 0)
            .map(|(i, _)| (i as u32, r.is_key[i]))
            .collect()
    }
    pub fn arm_clone_panic(&self, after: i64) {
        self.lock().clone_panic_in = after;
    }
    pub fn arm_weigh_panic(&self, after: i64) {
        self.lock().weigh_panic_in = after;
    }
    pub fn arm_pred_panic(&self, after: i64) {
        self.lock().pred_panic_in = after;
    }
    /// One evaluation of an invalidate_entries_if predicate; true = panic now.
    pub fn tick_pred(&self) -> bool {
        let mut r = self.lock();
        if r.pred_panic_in == 0 {
            r.pred_panic_in = -1;
            r.injected += 1;
            r.pred_injected += 1;
            return true;
        }
        if r.pred_panic_in > 0 {
            r.pred_panic_in -= 1;
        }
        false
    }
    pub fn pred_injected(&self) -> u32 {
        self.lock().pred_injected
    }
    pub fn injected(&self) -> u32 {
        self.lock().injected
    }
    fn tick_clone(&self) -> bool {
        let mut r = self.lock();
        if r.clone_panic_in == 0 {
            r.clone_panic_in = -1;
            r.injected += 1;
            return true;
        }
        if r.clone_panic_in > 0 {
            r.clone_panic_in -= 1;
        }
        false
    }
    pub fn tick_weigh(&self) -> bool {
        let mut r = self.lock();
        if r.weigh_panic_in == 0 {
            r.weigh_panic_in = -1;
            r.injected += 1;
            return true;
        }
        if r.weigh_panic_in > 0 {
            r.weigh_panic_in -= 1;
        }
        false
    }
}

struct Tracked {
    id: u32,
    reg: Arc<Registry>,
}

impl Drop for Tracked {
    fn drop(&mut self) {
        self.reg.dropped(self.id);
    }
}

/// Cache key. Only `k` takes part in Hash/Eq. Keys used for lookups are untracked.
pub struct K {
    pub k: u16,
    _t: Option<Tracked>,
}

impl K {
    pub fn tracked(k: u16, reg: &Arc<Registry>) -> K {
        K {
            k,
            _t: Some(Tracked {
                id: reg.create(true),
                reg: Arc::clone(reg),
            }),
        }
    }
    pub fn probe(k: u16) -> K {
        K { k, _t: None }
    }
}

// Caller-callback panics in K::hash / K::eq. One run at a time executes in a worker process,
// so the countdowns are process-global; they only tick while a simulated operation is
// executing on the calling thread (never during the harness's own lookups and snapshots).
static HASH_PANIC_IN: std::sync::atomic::AtomicI64 = std::sync::atomic::AtomicI64::new(-1);
static EQ_PANIC_IN: std::sync::atomic::AtomicI64 = std::sync::atomic::AtomicI64::new(-1);
static KEY_PANICS_INJECTED: std::sync::atomic::AtomicU32 = std::sync::atomic::AtomicU32::new(0);
thread_local! {
    static IN_OP: std::cell::Cell<bool> = const { std::cell::Cell::new(false) };
}

/// Arms (>= 0: panic in the n-th call from now) or disarms (-1) the K::hash / K::eq panics.
pub fn arm_key_panics(hash_in: i64, eq_in: i64) {
    use std::sync::atomic::Ordering::SeqCst;
    HASH_PANIC_IN.store(hash_in, SeqCst);
    EQ_PANIC_IN.store(eq_in, SeqCst);
    KEY_PANICS_INJECTED.store(0, SeqCst);
}
pub fn key_panics_injected() -> u32 {
    KEY_PANICS_INJECTED.load(std::sync::atomic::Ordering::SeqCst)
}
/// Marks the calling thread as (not) executing a simulated operation.
pub fn set_in_op(b: bool) {
    IN_OP.with(|c| c.set(b));
}
fn key_tick(c: &std::sync::atomic::AtomicI64) -> bool {
    use std::sync::atomic::Ordering::SeqCst;
    if !IN_OP.with(|c| c.get()) {
        return false;
    }
    let v = c.load(SeqCst);
    if v < 0 {
        return false;
    }
    if v == 0 {
        c.store(-1, SeqCst);
        KEY_PANICS_INJECTED.fetch_add(1, SeqCst);
        return true;
    }
    c.store(v - 1, SeqCst);
    false
}

impl PartialEq for K {
    fn eq(&self, o: &K) -> bool {
        if key_tick(&EQ_PANIC_IN) {
            panic!("{}", INJECTED_PANIC);
        }
        self.k == o.k
    }
}
impl Eq for K {}
impl Hash for K {
    fn hash<H: Hasher>(&self, h: &mut H) {
        if key_tick(&HASH_PANIC_IN) {
            panic!("{}", INJECTED_PANIC);
        }
        h.write_u16(self.k);
    }
}

/// Cache value: a unique id (one per insert in a run) and the weight the weigher reports.
pub struct V {
    pub id: u32,
    pub weight: u32,
    t: Tracked,
}

impl V {
    pub fn new(id: u32, weight: u32, reg: &Arc<Registry>) -> V {
        V {
            id,
            weight,
            t: Tracked {
                id: reg.create(false),
                reg: Arc::clone(reg),
            },
        }
    }
}

/// `{:?}` of a cache prints its entries as a map; the harness parses them back.
impl std::fmt::Debug for K {
    fn fmt(&self, f: &mut std::fmt::Formatter<'_>) -> std::fmt::Result {
        write!(f, "k{}", self.k)
    }
}

impl std::fmt::Debug for V {
    fn fmt(&self, f: &mut std::fmt::Formatter<'_>) -> std::fmt::Result {
        write!(f, "v{}", self.id)
    }
}

/// Parses the `{k1: v7, k2: v9}` rendering of a cache.
pub fn parse_debug_map(s: &str) -> Vec<(u16, u32)> {
    let mut out = Vec::new();
    let inner = s.trim().trim_start_matches('{').trim_end_matches('}');
    for part in inner.split(',') {
        let part = part.trim();
        if part.is_empty() {
            continue;
        }
        let mut it = part.split(':');
        let k = it.next().unwrap_or("").trim().trim_start_matches('k').parse::<u16>();
        let v = it.next().unwrap_or("").trim().trim_start_matches('v').parse::<u32>();
        match (k, v) {
            (Ok(k), Ok(v)) => out.push((k, v)),
            _ => out.push((u16::MAX, u32::MAX)), // unparsable: shows up as a phantom pair
        }
    }
    out
}

impl Clone for V {
    fn clone(&self) -> V {
        if self.t.reg.tick_clone() {
            panic!("{}", INJECTED_PANIC);
        }
        V::new(self.id, self.weight, &self.t.reg)
    }
}

#[derive(Clone, Copy, Debug, PartialEq, Eq, Serialize, Deserialize)]
pub enum HashMode {
    /// Well-mixed, fixed-key hash.
    Fixed,
    /// Every key hashes to the same value.
    Collide1,
    /// Keys hash to one of two values (by parity).
    Collide2,
    /// Adversarial for the popularity sketch: keys 0..760 get hash values whose sketch
    /// counters (table of 256 words, i.e. sketch capacities 129..256) are pairwise disjoint,
    /// so that after one lookup each nearly every touched counter holds an odd value; all
    /// other keys hash as under `Fixed`. (The aging step subtracts a quarter of the number of
    /// odd counters from half of the sample count.)
    SketchSpread,
}

/// Number of keys with crafted hash values under `HashMode::SketchSpread`.
pub const SPREAD_KEYS: u16 = 760;

/// The crafted hash values: a greedy scan of the integers above 1000 for values whose four
/// sketch counters (same index function and seeds as the library's `FrequencySketch`,
/// 256-word table) collide with none of the values taken before.
fn spread_table() -> &'static Vec<u64> {
    static T: std::sync::OnceLock<Vec<u64>> = std::sync::OnceLock::new();
    T.get_or_init(|| {
        const SEED: [u64; 4] = [
            0xc3a5_c85c_97cb_3127,
            0xb492_b66f_be98_f273,
            0x9ae1_6a3b_2f90_404f,
            0xcbf2_9ce4_8422_2325,
        ];
        let mask = 255u64;
        let mut used = std::collections::BTreeSet::new();
        let mut out = Vec::new();
        let mut h = 1000u64;
        while out.len() < SPREAD_KEYS as usize {
            h += 1;
            let start = (h & 3) << 2;
            let mut pos = [(0u64, 0u64); 4];
            for (i, seed) in SEED.iter().enumerate() {
                let mut x = h.wrapping_add(*seed).wrapping_mul(*seed);
                x = x.wrapping_add(x >> 32);
                pos[i] = (x & mask, start + i as u64);
            }
            if pos.iter().any(|p| used.contains(p)) {
                continue;
            }
            used.extend(pos);
            out.push(h);
        }
        out
    })
}

#[derive(Clone)]
pub struct SimBuildHasher {
    pub mode: HashMode,
}

pub struct SimHasher {
    mode: HashMode,
    acc: u64,
    /// the key, when it was fed through `write_u16` (what `K::hash` does)
    key: Option<u16>,
}

impl BuildHasher for SimBuildHasher {
    type Hasher = SimHasher;
    fn build_hasher(&self) -> SimHasher {
        SimHasher {
            mode: self.mode,
            acc: 0,
            key: None,
        }
    }
}

impl Hasher for SimHasher {
    fn write_u16(&mut self, v: u16) {
        self.key = Some(v);
        self.write(&v.to_ne_bytes());
    }
    fn write(&mut self, bytes: &[u8]) {
        for b in bytes {
            self.acc = self.acc.wrapping_mul(257).wrapping_add(*b as u64 + 1);
        }
    }
    fn finish(&self) -> u64 {
        match self.mode {
            HashMode::Fixed => {
                let mut x = self.acc ^ 0x5851_F42D_4C95_7F2D;
                crate::prng::splitmix64(&mut x)
            }
            HashMode::SketchSpread => {
                // `acc` encodes the two key bytes (see `write`): recover the key
                let mut x = self.acc ^ 0x5851_F42D_4C95_7F2D;
                let fixed = crate::prng::splitmix64(&mut x);
                match self.key {
                    Some(k) if k < SPREAD_KEYS => spread_table()[k as usize],
                    _ => fixed,
                }
            }
            HashMode::Collide1 => 0x1234_5678_9ABC_DEF0,
            HashMode::Collide2 => {
                if self.acc & 1 == 0 {
                    0x1234_5678_9ABC_DEF0
                } else {
                    0x0FED_CBA9_8765_4321
                }
            }
        }
    }
}

pub fn hash_of(mode: HashMode, k: u16) -> u64 {
    SimBuildHasher { mode }.hash_one(K::probe(k))
}
