//! Seeded PRNG (splitmix64 seeding + xoshiro256**). No OS entropy, no thread-locals.

#[derive(Clone, Debug)]
pub struct Prng {
    s: [u64; 4],
}

pub fn splitmix64(x: &mut u64) -> u64 {
    *x = x.wrapping_add(0x9E37_79B9_7F4A_7C15);
    let mut z = *x;
    z = (z ^ (z >> 30)).wrapping_mul(0xBF58_476D_1CE4_E5B9);
    z = (z ^ (z >> 27)).wrapping_mul(0x94D0_49BB_1331_11EB);
    z ^ (z >> 31)
}

/// Mixes (seed, stream, index) into one sub-seed.
pub fn mix(seed: u64, stream: u64, index: u64) -> u64 {
    let mut x = seed ^ 0xA076_1D64_78BD_642F;
    let a = splitmix64(&mut x);
    let mut y = a ^ stream.wrapping_mul(0xE703_7ED1_A0B4_28DB);
    let b = splitmix64(&mut y);
    let mut z = b ^ index.wrapping_mul(0x8EBC_6AF0_9C88_C6E3);
    splitmix64(&mut z)
}

impl Prng {
    pub fn new(seed: u64) -> Self {
        let mut x = seed;
        let s = [
            splitmix64(&mut x),
            splitmix64(&mut x),
            splitmix64(&mut x),
            splitmix64(&mut x),
        ];
        Prng { s }
    }

    pub fn next_u64(&mut self) -> u64 {
        let r = self.s[1].wrapping_mul(5).rotate_left(7).wrapping_mul(9);
        let t = self.s[1] << 17;
        self.s[2] ^= self.s[0];
        self.s[3] ^= self.s[1];
        self.s[1] ^= self.s[2];
        self.s[0] ^= self.s[3];
        self.s[2] ^= t;
        self.s[3] = self.s[3].rotate_left(45);
        r
    }

    /// Uniform in 0..n (n > 0).
    pub fn below(&mut self, n: u64) -> u64 {
        debug_assert!(n > 0);
        // Multiply-shift; bias is irrelevant at these sizes.
        ((self.next_u64() as u128 * n as u128) >> 64) as u64
    }

    pub fn range(&mut self, lo: u64, hi_incl: u64) -> u64 {
        lo + self.below(hi_incl - lo + 1)
    }

    /// True with probability num/den.
    pub fn chance(&mut self, num: u64, den: u64) -> bool {
        self.below(den) < num
    }

    pub fn pick<'a, T>(&mut self, xs: &'a [T]) -> &'a T {
        &xs[self.below(xs.len() as u64) as usize]
    }

    /// Index drawn according to integer weights (sum > 0).
    pub fn weighted(&mut self, weights: &[u32]) -> usize {
        let total: u64 = weights.iter().map(|w| *w as u64).sum();
        let mut r = self.below(total);
        for (i, w) in weights.iter().enumerate() {
            if r < *w as u64 {
                return i;
            }
            r -= *w as u64;
        }
        weights.len() - 1
    }
}

/// FNV-1a over bytes, used for trace/state hashes (deterministic, dependency-free).
#[derive(Clone, Copy)]
pub struct Fnv(pub u64);

impl Default for Fnv {
    fn default() -> Self {
        Fnv(0xcbf2_9ce4_8422_2325)
    }
}

impl Fnv {
    pub fn u64(&mut self, v: u64) {
        for b in v.to_le_bytes() {
            self.0 ^= b as u64;
            self.0 = self.0.wrapping_mul(0x0000_0100_0000_01B3);
        }
    }
    pub fn bytes(&mut self, bs: &[u8]) {
        for b in bs {
            self.0 ^= *b as u64;
            self.0 = self.0.wrapping_mul(0x0000_0100_0000_01B3);
        }
        self.u64(bs.len() as u64);
    }
    pub fn str(&mut self, s: &str) {
        self.bytes(s.as_bytes());
    }
}
