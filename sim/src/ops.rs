//! Configurations, operations and explicit traces (the replay-file format).

use serde::{Deserialize, Serialize};

use crate::types::HashMode;

#[derive(Clone, Copy, Debug, PartialEq, Eq, Serialize, Deserialize)]
pub enum Kind {
    Unsync,
    Sync,
}

#[derive(Clone, Debug, PartialEq, Eq, Serialize, Deserialize)]
pub struct Config {
    pub kind: Kind,
    pub cap: Option<u64>,
    pub weigher: bool,
    /// Nanoseconds.
    pub ttl: Option<u64>,
    pub tti: Option<u64>,
    pub hasher: HashMode,
    pub init_cap: Option<usize>,
    /// Number of DashMap shards of the concurrent cache (a power of two > 1); None = 4.
    #[serde(default, skip_serializing_if = "Option::is_none")]
    pub shards: Option<usize>,
    /// thr: threads may be preempted *inside* an insert, while the write lock of the key's
    /// map shard is held (switch points `insert.in_map*`); everybody else who needs that
    /// shard is parked by a map probe until the insert leaves the map.
    #[serde(default, skip_serializing_if = "std::ops::Not::not")]
    pub wlock_sp: bool,
}

impl Config {
    pub fn has_expiry(&self) -> bool {
        self.ttl.is_some() || self.tti.is_some()
    }
    pub fn class(&self) -> String {
        format!(
            "{:?}/cap{}/w{}/ttl{}/tti{}/{:?}/s{}",
            self.kind,
            self.cap.map(|c| c.to_string()).unwrap_or("-".into()),
            self.weigher as u8,
            self.ttl.map(|c| c.to_string()).unwrap_or("-".into()),
            self.tti.map(|c| c.to_string()).unwrap_or("-".into()),
            self.hasher,
            self.shards.unwrap_or(4)
        )
    }
}

#[derive(Clone, Copy, Debug, PartialEq, Eq, Serialize, Deserialize)]
pub enum Pred {
    /// key < c
    KeyLt(u16),
    /// value id is odd
    ValOdd,
    /// weight == w
    WeightEq(u32),
    True,
    False,
}

impl Pred {
    pub fn eval(&self, k: u16, vid: u32, weight: u32) -> bool {
        match *self {
            Pred::KeyLt(c) => k < c,
            Pred::ValOdd => vid % 2 == 1,
            Pred::WeightEq(w) => weight == w,
            Pred::True => true,
            Pred::False => false,
        }
    }
}

/// One step of a stepped iteration inside a sequential history (`Op::IterSteps`).
#[derive(Clone, Debug, PartialEq, Eq, Serialize, Deserialize)]
pub enum IterStep {
    /// one `next()` call
    Next,
    /// the clock moves while the iterator is held
    Advance { ns: u64 },
    /// sync only: `invalidate_all()` takes no map lock, so the thread that holds the
    /// iterator may call it
    InvalidateAll,
}

#[derive(Clone, Debug, PartialEq, Eq, Serialize, Deserialize)]
pub enum Op {
    /// `vid` is unique within a run.
    Insert { k: u16, vid: u32, w: u32 },
    Get { k: u16 },
    Contains { k: u16 },
    Iter,
    Invalidate { k: u16 },
    InvalidateAll,
    /// unsync only
    InvalidateIf { p: Pred },
    /// sync only (explicit maintenance)
    Sync,
    /// Advance the simulated clock by `ns`.
    Advance { ns: u64 },
    /// thr: this thread drops its handle (it must be its last op).
    DropHandle,
    /// thr: start a stepped iteration (one `next()` per later `IterNext`).
    IterBegin,
    IterNext,
    IterEnd,
    /// seq: one iterator, created, stepped through `script` (the clock may move and, on the
    /// concurrent cache, `invalidate_all` may be called between two `next()` calls) and then
    /// drained at the final reading.
    IterSteps { script: Vec<IterStep> },
}

impl Op {
    pub fn key(&self) -> Option<u16> {
        match self {
            Op::Insert { k, .. } | Op::Get { k } | Op::Contains { k } | Op::Invalidate { k } => {
                Some(*k)
            }
            _ => None,
        }
    }
    pub fn name(&self) -> &'static str {
        match self {
            Op::Insert { .. } => "insert",
            Op::Get { .. } => "get",
            Op::Contains { .. } => "contains_key",
            Op::Iter => "iter",
            Op::Invalidate { .. } => "invalidate",
            Op::InvalidateAll => "invalidate_all",
            Op::InvalidateIf { .. } => "invalidate_entries_if",
            Op::Sync => "sync",
            Op::Advance { .. } => "advance",
            Op::DropHandle => "drop_handle",
            Op::IterBegin => "iter_begin",
            Op::IterNext => "iter_next",
            Op::IterEnd => "iter_end",
            Op::IterSteps { .. } => "iter_stepped",
        }
    }
}

/// Faults forced while one operation executes (explicit, so they shrink with the op).
#[derive(Clone, Copy, Debug, Default, PartialEq, Eq, Serialize, Deserialize)]
pub struct Faults {
    /// The read record of this get is dropped (as if the read channel were full).
    #[serde(default, skip_serializing_if = "is_false")]
    pub read_drop: bool,
    /// The first n `try_sync` attempts inside this op lose the flag.
    #[serde(default, skip_serializing_if = "is_zero")]
    pub hk_contended: u8,
    /// The first n `try_send` attempts of the write op find the channel full.
    #[serde(default, skip_serializing_if = "is_zero")]
    pub write_full: u8,
}

fn is_false(b: &bool) -> bool {
    !*b
}
fn is_zero(b: &u8) -> bool {
    *b == 0
}

impl Faults {
    pub fn any(&self) -> bool {
        self.read_drop || self.hk_contended > 0 || self.write_full > 0
    }
}

#[derive(Clone, Debug, PartialEq, Eq, Serialize, Deserialize)]
pub struct OpRec {
    pub op: Op,
    #[serde(default, skip_serializing_if = "no_faults")]
    pub f: Faults,
}

fn no_faults(f: &Faults) -> bool {
    !f.any()
}

impl OpRec {
    pub fn plain(op: Op) -> OpRec {
        OpRec {
            op,
            f: Faults::default(),
        }
    }
}

#[derive(Clone, Copy, Debug, PartialEq, Eq, Serialize, Deserialize)]
pub enum Engine {
    Seq,
    /// metamorphic pair for C15
    Pair,
    Thr,
    Burst,
}

/// Caller-callback panic injection (separate population).
#[derive(Clone, Copy, Debug, Default, PartialEq, Eq, Serialize, Deserialize)]
pub struct CallbackFaults {
    /// Panic in the n-th V::clone (counted from the start of the run).
    #[serde(default)]
    pub clone_panic_at: Option<u32>,
    /// Panic in the n-th weigher call.
    #[serde(default)]
    pub weigh_panic_at: Option<u32>,
    /// Panic in the n-th K::hash call made while a simulated operation executes.
    #[serde(default, skip_serializing_if = "Option::is_none")]
    pub hash_panic_at: Option<u32>,
    /// Panic in the n-th K::eq call made while a simulated operation executes.
    #[serde(default, skip_serializing_if = "Option::is_none")]
    pub eq_panic_at: Option<u32>,
    /// unsync: panic in the n-th evaluation of an `invalidate_entries_if` predicate.
    #[serde(default, skip_serializing_if = "Option::is_none")]
    pub pred_panic_at: Option<u32>,
}

/// A fully explicit description of one simulated run. Replaying it consults no PRNG.
#[derive(Clone, Debug, PartialEq, Eq, Serialize, Deserialize)]
pub struct Trace {
    pub engine: Engine,
    pub config: Config,
    /// One program per simulated thread (seq/pair: exactly one).
    pub threads: Vec<Vec<OpRec>>,
    /// Pair engine: indices (into threads[0]) of the extra observation calls that only
    /// the second run executes.
    #[serde(default, skip_serializing_if = "Vec::is_empty")]
    pub extra: Vec<usize>,
    /// thr/burst: the thread chosen at each scheduling decision. When the recorded
    /// thread is not runnable the lowest-numbered runnable one is taken.
    #[serde(default, skip_serializing_if = "Vec::is_empty")]
    pub schedule: Vec<u8>,
    /// thr/burst: seeded scheduling policy used when no explicit schedule is given.
    #[serde(default, skip_serializing_if = "Option::is_none")]
    pub sched: Option<SchedSpec>,
    /// thr/burst: operations the main thread executes (followed by sync()) before the
    /// simulated threads start.
    #[serde(default, skip_serializing_if = "Vec::is_empty")]
    pub prologue: Vec<OpRec>,
    #[serde(default)]
    pub callback_faults: CallbackFaults,
    /// Where the trace came from (informational).
    #[serde(default)]
    pub origin: Option<Origin>,
}

#[derive(Clone, Debug, PartialEq, Eq, Serialize, Deserialize)]
pub struct SchedSpec {
    /// "random" | "sticky" | "pct"
    pub policy: String,
    pub seed: u64,
    /// PCT priority change points (steps).
    #[serde(default)]
    pub change_points: Vec<usize>,
    /// From this step on: no faults, no starvation, round-robin scheduling.
    pub fair_after: usize,
    /// (thread, from_step, to_step)
    #[serde(default)]
    pub starve: Option<(usize, usize, usize)>,
    /// The starvation window only opens once the thread holds the maintenance (deques) lock
    /// at or after `from_step`; it then lasts `to_step - from_step` steps.
    #[serde(default, skip_serializing_if = "std::ops::Not::not")]
    pub starve_in_sync: bool,
    /// (on, off): inside the starvation window the thread is starved for `on` steps, then
    /// eligible for `off` steps, and so on (a slow thread rather than a stopped one).
    #[serde(default, skip_serializing_if = "Option::is_none")]
    pub starve_stutter: Option<(usize, usize)>,
    pub budget: usize,
}

#[derive(Clone, Debug, PartialEq, Eq, Serialize, Deserialize)]
pub struct Origin {
    pub seed: u64,
    pub run: u64,
    pub population: String,
}

impl Trace {
    pub fn n_ops(&self) -> usize {
        self.threads.iter().map(|t| t.len()).sum()
    }
}

/// A violation found by an oracle.
#[derive(Clone, Debug, PartialEq, Eq, Serialize, Deserialize)]
pub struct Violation {
    /// e.g. "C10.count-vs-physical"
    pub rule: String,
    pub msg: String,
    /// Step (op index for seq; global step for thr) at which it was detected.
    pub step: usize,
    /// Key the oracle complained about, if any.
    pub key: Option<u16>,
}

impl Violation {
    pub fn prop(&self) -> &str {
        self.rule.split('.').next().unwrap_or("")
    }
}
