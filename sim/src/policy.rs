//! Exact prediction of the resident set (C12 LRU-prefix victims, C13 TinyLFU admission).
//!
//! Only used where every step starts and ends at a quiescent point: `unsync`, and
//! `sync` programs in which every operation is followed by `sync()`. The admission
//! decision is predicted from the implementation's *own* popularity estimates, read
//! through the H6 hook just before the insert.

use std::collections::{BTreeMap, BTreeSet};

use mini_moka::verif::Snapshot;

use crate::ops::{Config, Kind, Op, Pred, Violation};

#[derive(Clone, Debug)]
struct PEnt {
    vid: u32,
    w: u32,
    raw_w: u32,
    t_mod: u64,
    t_acc: u64,
}

#[derive(Default, Clone, Debug)]
pub struct PolStats {
    pub steps_checked: u64,
    pub evictions: u64,
    pub evictions_multi: u64,
    pub zero_weight_victims: u64,
    pub no_room_inserts: u64,
    pub admitted_multi_victim: u64,
    pub rejected_equal: u64,
    pub rejected_no_prefix: u64,
    pub admitted: u64,
    pub rejected: u64,
    pub excess_evictions: u64,
    pub hit_on_lru_before_eviction: u64,
    pub resyncs: u64,
}

/// What the model expects of the step that is being executed.
#[derive(Clone, Debug, Default)]
struct Expect {
    /// Candidate of a no-room admission, with the predicted decision.
    candidate: Option<(u16, bool)>,
    /// Predicted victims of the admission or of the excess eviction, in LRU order.
    victims: Vec<u16>,
    /// Required weight (newcomer's weight / excess).
    required: u64,
    /// LRU order (keys) before the eviction took place.
    lru_before: Vec<u16>,
    /// Keys targeted by an invalidation in this step.
    invalidated: BTreeSet<u16>,
    /// Keys expired in this step.
    expired: BTreeSet<u16>,
    equal_popularity: bool,
}

pub struct Policy {
    cfg: Config,
    pub enabled: bool,
    in_sync: bool,
    lru: Vec<u16>,
    ent: BTreeMap<u16, PEnt>,
    exp: Expect,
    pub stats: PolStats,
    last_hit_was_lru: bool,
}

impl Policy {
    pub fn new(cfg: &Config, enabled: bool) -> Policy {
        Policy {
            cfg: cfg.clone(),
            enabled,
            in_sync: true,
            lru: Vec::new(),
            ent: BTreeMap::new(),
            exp: Expect::default(),
            stats: PolStats::default(),
            last_hit_was_lru: false,
        }
    }

    fn dead(&self, e: &PEnt, now: u64) -> bool {
        self.cfg
            .ttl
            .map(|d| now >= e.t_mod.saturating_add(d))
            .unwrap_or(false)
            || self
                .cfg
                .tti
                .map(|d| now >= e.t_acc.saturating_add(d))
                .unwrap_or(false)
    }

    fn total(&self) -> u64 {
        self.ent.values().map(|e| e.w as u64).sum()
    }

    fn remove(&mut self, k: u16) {
        self.ent.remove(&k);
        self.lru.retain(|x| *x != k);
    }

    fn to_mru(&mut self, k: u16) {
        self.lru.retain(|x| *x != k);
        self.lru.push(k);
    }

    fn purge_expired(&mut self, now: u64) {
        let dead: Vec<u16> = self
            .ent
            .iter()
            .filter(|(_, e)| self.dead(e, now))
            .map(|(k, _)| *k)
            .collect();
        for k in dead {
            self.exp.expired.insert(k);
            self.remove(k);
        }
    }

    fn evict_excess(&mut self) {
        let cap = match self.cfg.cap {
            Some(c) => c,
            None => return,
        };
        let total = self.total();
        if total <= cap {
            return;
        }
        let excess = total - cap;
        self.exp.required = excess;
        self.exp.lru_before = self.lru.clone();
        let mut freed = 0u64;
        let mut victims = Vec::new();
        for k in self.lru.clone() {
            if freed >= excess {
                break;
            }
            freed += self.ent[&k].w as u64;
            victims.push(k);
        }
        for k in &victims {
            self.remove(*k);
        }
        self.stats.excess_evictions += victims.len() as u64;
        self.exp.victims = victims;
    }

    /// Applies the predicted effect of `op` (executed at reading `now`). `est(k)` is the
    /// implementation's popularity estimate of key k read just before the operation.
    pub fn apply(&mut self, op: &Op, now: u64, est: &dyn Fn(u16) -> u8) {
        if !self.enabled {
            return;
        }
        self.exp = Expect::default();
        let unsync = self.cfg.kind == Kind::Unsync;
        let housekeeping = matches!(
            op,
            Op::Get { .. } | Op::Insert { .. } | Op::Invalidate { .. } | Op::Contains { .. }
        );
        if unsync && housekeeping {
            self.purge_expired(now);
            self.evict_excess();
        }
        if !unsync {
            // sync: the pass purges what is expired at its own reading first (or, for a
            // rejected candidate, before deciding); same outcome.
            self.purge_expired(now);
        }
        match op {
            Op::Get { k } => {
                if self.ent.contains_key(k) {
                    self.last_hit_was_lru = self.lru.first() == Some(k) && self.lru.len() > 1;
                    let e = self.ent.get_mut(k).unwrap();
                    e.t_acc = e.t_acc.max(now);
                    self.to_mru(*k);
                }
            }
            Op::Insert { k, vid, w } => {
                let pw = if self.cfg.weigher { *w } else { 1 };
                if let Some(e) = self.ent.get_mut(k) {
                    e.vid = *vid;
                    e.w = pw;
                    e.raw_w = *w;
                    e.t_mod = now;
                    e.t_acc = now;
                    self.to_mru(*k);
                } else {
                    self.admit(*k, *vid, pw, *w, now, est);
                }
            }
            Op::Invalidate { k } => {
                if self.ent.contains_key(k) {
                    self.exp.invalidated.insert(*k);
                    self.remove(*k);
                }
            }
            Op::InvalidateAll => {
                let keys: Vec<u16> = self
                    .ent
                    .iter()
                    .filter(|(_, e)| unsync || e.t_mod < now)
                    .map(|(k, _)| *k)
                    .collect();
                for k in keys {
                    self.exp.invalidated.insert(k);
                    self.remove(k);
                }
            }
            Op::InvalidateIf { p } => {
                let p: Pred = *p;
                let keys: Vec<u16> = self
                    .ent
                    .iter()
                    .filter(|(k, e)| p.eval(**k, e.vid, e.raw_w))
                    .map(|(k, _)| *k)
                    .collect();
                for k in keys {
                    self.exp.invalidated.insert(k);
                    self.remove(k);
                }
            }
            _ => {}
        }
        if !unsync {
            // sync: the pass ends with a purge at its own reading, then evicts the excess
            // (after a weight-growing update) in the same pass.
            self.purge_expired(now);
            self.evict_excess();
        }
    }

    fn admit(&mut self, k: u16, vid: u32, pw: u32, raw_w: u32, now: u64, est: &dyn Fn(u16) -> u8) {
        let new = PEnt {
            vid,
            w: pw,
            raw_w,
            t_mod: now,
            t_acc: now,
        };
        let cap = match self.cfg.cap {
            None => {
                self.ent.insert(k, new);
                self.lru.push(k);
                return;
            }
            Some(c) => c,
        };
        let total = self.total();
        if total + pw as u64 <= cap {
            self.ent.insert(k, new);
            self.lru.push(k);
            return;
        }
        self.stats.no_room_inserts += 1;
        self.exp.lru_before = self.lru.clone();
        self.exp.required = pw as u64;
        if pw as u64 > cap {
            self.exp.candidate = Some((k, false));
            self.stats.rejected += 1;
            return;
        }
        // shortest LRU prefix whose weight >= the newcomer's
        let mut vw = 0u64;
        let mut vf = 0u32;
        let mut victims = Vec::new();
        for r in &self.lru {
            if vw >= pw as u64 {
                break;
            }
            vw += self.ent[r].w as u64;
            vf += est(*r) as u32;
            victims.push(*r);
        }
        let cf = est(k) as u32;
        let admitted = vw >= pw as u64 && cf > vf;
        if vw < pw as u64 {
            self.stats.rejected_no_prefix += 1;
        } else if cf == vf {
            self.exp.equal_popularity = true;
            self.stats.rejected_equal += 1;
        }
        self.exp.candidate = Some((k, admitted));
        if admitted {
            self.stats.admitted += 1;
            if victims.len() >= 2 {
                self.stats.admitted_multi_victim += 1;
            }
            for v in &victims {
                self.remove(*v);
            }
            self.exp.victims = victims;
            self.ent.insert(k, new);
            self.lru.push(k);
        } else {
            self.stats.rejected += 1;
        }
    }

    fn adopt(&mut self, snap: &Snapshot) {
        self.ent.clear();
        self.lru.clear();
        let by_key: BTreeMap<u64, &mini_moka::verif::SnapEntry> =
            snap.entries.iter().map(|e| (e.key, e)).collect();
        for n in &snap.probation {
            if let Some(e) = by_key.get(&n.key) {
                let k = n.key as u16;
                if self.ent.contains_key(&k) {
                    continue;
                }
                self.ent.insert(
                    k,
                    PEnt {
                        vid: e.value as u32,
                        w: e.weight,
                        raw_w: e.weight,
                        t_mod: e.last_modified.or(e.last_accessed).unwrap_or(0),
                        t_acc: e.last_accessed.unwrap_or(0),
                    },
                );
                self.lru.push(k);
            }
        }
        self.in_sync = true;
        self.stats.resyncs += 1;
    }

    /// Compares the prediction with what the cache physically holds after the step.
    /// `must_not_see(k)` tells whether the reference model forbids key k to be visible
    /// (zombies that only await purging are not a policy matter).
    pub fn compare(
        &mut self,
        step: usize,
        snap: &Snapshot,
        must_not_see: &dyn Fn(u16) -> bool,
        out: &mut Vec<Violation>,
    ) {
        if !self.enabled {
            return;
        }
        // Entries that only await purging (expired / invalidated but still held) distort
        // the weights the implementation sees; they are judged by C10/C11, not here.
        if self.cfg.kind == Kind::Sync && snap.entries.iter().any(|e| must_not_see(e.key as u16)) {
            self.in_sync = false;
            self.exp = Expect::default();
            return;
        }
        if !self.in_sync {
            self.adopt(snap);
            return;
        }
        let actual: BTreeSet<u16> = snap.entries.iter().map(|e| e.key as u16).collect();
        // unsync: the excess created by a weight-growing update may be evicted by the
        // update itself or by the next housekeeping operation (C04 sanctions both);
        // accept the eager variant when that is what the implementation did.
        if self.cfg.kind == Kind::Unsync {
            if let Some(cap) = self.cfg.cap {
                if self.total() > cap {
                    let (ent0, lru0, exp0) = (self.ent.clone(), self.lru.clone(), self.exp.clone());
                    self.evict_excess();
                    let eager: BTreeSet<u16> = self.ent.keys().copied().collect();
                    if eager != actual {
                        self.ent = ent0;
                        self.lru = lru0;
                        self.exp = exp0;
                    }
                }
            }
        }
        let predicted: BTreeSet<u16> = self.ent.keys().copied().collect();
        self.stats.steps_checked += 1;
        let exp = std::mem::take(&mut self.exp);
        if !exp.victims.is_empty() {
            self.stats.evictions += 1;
            if exp.victims.len() >= 2 {
                self.stats.evictions_multi += 1;
            }
            if self.last_hit_was_lru {
                self.stats.hit_on_lru_before_eviction += 1;
            }
            self.last_hit_was_lru = false;
        }
        if actual == predicted {
            return;
        }
        let extra: Vec<u16> = actual.difference(&predicted).copied().collect();
        let missing: Vec<u16> = predicted.difference(&actual).copied().collect();
        let mut push = |rule: &str, msg: String, key: Option<u16>| {
            out.push(Violation {
                rule: rule.to_string(),
                msg,
                step,
                key,
            })
        };
        // zombies: physically present, but the reference model already forbids seeing them
        let real_extra: Vec<u16> = extra.iter().copied().filter(|k| !must_not_see(*k)).collect();
        if real_extra.len() != extra.len() {
            // Entries that only await purging distort the weights; not a policy matter.
            self.in_sync = false;
            return;
        }
        let ctx = format!(
            "predicted residents {:?}, actual {:?}; LRU order before the step {:?}, required weight {}, predicted victims {:?}",
            predicted, actual, exp.lru_before, exp.required, exp.victims
        );
        if let Some((cand, admit)) = exp.candidate {
            let actually = actual.contains(&cand);
            if actually != admit {
                push(
                    "C13.admission-decision",
                    format!(
                        "insert of new key {} without room: predicted {} from the implementation's own estimates{}, but it was {}; {}",
                        cand,
                        if admit { "ADMIT" } else { "REJECT" },
                        if exp.equal_popularity { " (equal popularity)" } else { "" },
                        if actually { "admitted" } else { "rejected" },
                        ctx
                    ),
                    Some(cand),
                );
                if !admit {
                    // residents displaced by a candidate that had to be rejected
                    for m in &missing {
                        push(
                            "C12.removed-out-of-order",
                            format!("resident {} was removed although the candidate {} had to be rejected; {}", m, cand, ctx),
                            Some(*m),
                        );
                    }
                }
                self.in_sync = false;
                return;
            }
        }
        // decision agrees (or no admission in this step): judge the victim set
        let removed_actual: Vec<u16> = exp
            .lru_before
            .iter()
            .copied()
            .filter(|k| !actual.contains(k) && !exp.invalidated.contains(k) && !exp.expired.contains(k))
            .collect();
        if !exp.lru_before.is_empty() {
            let is_prefix = exp.lru_before.iter().take(removed_actual.len()).copied().collect::<Vec<_>>()
                == removed_actual;
            if !is_prefix {
                push(
                    "C12.not-lru-prefix",
                    format!("removed {:?} is not a prefix of the LRU order; {}", removed_actual, ctx),
                    removed_actual.first().copied(),
                );
            } else if removed_actual != exp.victims {
                push(
                    "C12.not-shortest-prefix",
                    format!("removed {:?} but the shortest sufficient LRU prefix is {:?}; {}", removed_actual, exp.victims, ctx),
                    removed_actual.last().copied().or(exp.victims.last().copied()),
                );
                if exp.candidate.is_some() {
                    push(
                        "C13.victim-set",
                        format!("admission evicted {:?} instead of {:?}; {}", removed_actual, exp.victims, ctx),
                        exp.candidate.map(|c| c.0),
                    );
                }
            } else {
                // victims agree; something else differs
                for m in &missing {
                    if !exp.lru_before.contains(m) {
                        continue;
                    }
                    push(
                        "C12.removed-out-of-order",
                        format!("resident {} disappeared; {}", m, ctx),
                        Some(*m),
                    );
                }
                for x in &real_extra {
                    push(
                        "C12.victim-survived",
                        format!("key {} should have been removed; {}", x, ctx),
                        Some(*x),
                    );
                }
            }
        } else {
            for m in &missing {
                push(
                    "C12.removed-out-of-order",
                    format!("resident {} disappeared in a step that required no eviction; {}", m, ctx),
                    Some(*m),
                );
            }
            for x in &real_extra {
                push(
                    "C12.victim-survived",
                    format!("key {} is resident but the model predicted its removal; {}", x, ctx),
                    Some(*x),
                );
            }
        }
        self.in_sync = false;
    }

    pub fn desync(&mut self) {
        self.in_sync = false;
    }
}
