//! Reference model (a map with expiry) and the two-sided visibility oracle.
//!
//! MUST-NOT-SEE is the safety side (C01, C05, C06, C07); MUST-SEE is the
//! no-spurious-loss side (C03, C07 precision), asserted only in capacity-safe states.

use std::collections::{BTreeMap, BTreeSet};

use crate::ops::{Config, Kind, Pred, Violation};

#[derive(Clone, Debug)]
pub struct MEntry {
    pub vid: u32,
    /// Policy weight (1 without a weigher).
    pub weight: u32,
    /// The weight field of the value object (what predicates see).
    pub raw_w: u32,
    pub t_mod: u64,
    /// Upper bound of what the implementation may use as the last access.
    pub t_acc_true: u64,
    /// Lower bound the implementation must honour (sync: only applied read records).
    pub t_acc_guar: u64,
    /// Step at which this value was written.
    pub step_mod: usize,
    /// A lookup has returned this value at least once.
    pub seen: bool,
    /// Number of get hits / contains / iter observations since the last write.
    pub hits_since_mod: u32,
    pub observations_since_mod: u32,
}

#[derive(Clone, Copy, Debug, PartialEq, Eq)]
pub enum Gone {
    /// Never inserted in this run.
    Never,
    InvalidatedByKey,
    InvalidatedAll,
    InvalidatedIf,
    /// Accepted eviction/rejection while the run was not capacity-safe.
    Evicted,
}

#[derive(Default, Clone, Debug)]
pub struct ModelStats {
    pub lookups: u64,
    pub lookups_nontrivial_c01: u64,
    pub must_not_see_checked: u64,
    pub must_see_checked: u64,
    pub ttl_boundary_lookups: u64,
    pub ttl_dead_lookups_seen_before: u64,
    pub tti_dead_lookups_seen_before: u64,
    pub tti_boundary_lookups: u64,
    pub tti_dead_after_observation: u64,
    pub gap_lookups: u64,
    pub removal_causes: u64,
    pub latch_cleared: u64,
    pub latch_rearmed: u64,
    pub inval_removed: u64,
    pub inval_then_lookup_removed: u64,
    pub inval_then_lookup_survivor: u64,
    pub reinserts_after_inval: u64,
}

pub struct Model {
    pub cfg: Config,
    pub now: u64,
    pub entries: BTreeMap<u16, MEntry>,
    pub gone: BTreeMap<u16, Gone>,
    /// Keys that were invalidated at least once and inserted again afterwards.
    pub reinserted: BTreeSet<u16>,
    pub cap_safe: bool,
    /// sync: get hits whose read record is queued but not yet applied (key, vid, time).
    pub pending_reads: Vec<(u16, u32, u64)>,
    /// Step of the most recent invalidation call of any form.
    pub last_inval_step: Option<usize>,
    /// Keys removed by the most recent invalidation call.
    pub last_inval_removed: BTreeSet<u16>,
    pub stats: ModelStats,
    /// true when t_acc_guar is tracked through applied read records (seq engine).
    pub track_reads: bool,
    /// Keys with an insert that unwound from one of the caller's own value callbacks
    /// (weigher, `V::clone`) -> the value ids of those inserts. Until the key is written or
    /// invalidated again a lookup may observe nothing, one of these values, or what the
    /// model holds; never anything older.
    pub tainted: BTreeMap<u16, BTreeSet<u32>>,
}

impl Model {
    pub fn new(cfg: &Config) -> Model {
        Model {
            cfg: cfg.clone(),
            now: 0,
            entries: BTreeMap::new(),
            gone: BTreeMap::new(),
            reinserted: BTreeSet::new(),
            cap_safe: true,
            pending_reads: Vec::new(),
            tainted: BTreeMap::new(),
            last_inval_step: None,
            last_inval_removed: BTreeSet::new(),
            stats: ModelStats::default(),
            track_reads: true,
        }
    }

    pub fn ttl_deadline(&self, e: &MEntry) -> Option<u64> {
        self.cfg.ttl.map(|d| e.t_mod.saturating_add(d))
    }
    pub fn tti_deadline_upper(&self, e: &MEntry) -> Option<u64> {
        self.cfg.tti.map(|d| e.t_acc_true.saturating_add(d))
    }
    pub fn tti_deadline_lower(&self, e: &MEntry) -> Option<u64> {
        self.cfg.tti.map(|d| e.t_acc_guar.saturating_add(d))
    }

    /// MUST-NOT-SEE time clause: certainly expired at reading `t`.
    pub fn dead_at(&self, e: &MEntry, t: u64) -> bool {
        self.ttl_deadline(e).map(|d| t >= d).unwrap_or(false)
            || self.tti_deadline_upper(e).map(|d| t >= d).unwrap_or(false)
    }

    /// MUST-SEE time clause: certainly not expired at reading `t`.
    pub fn surely_alive_at(&self, e: &MEntry, t: u64) -> bool {
        self.ttl_deadline(e).map(|d| t < d).unwrap_or(true)
            && self.tti_deadline_lower(e).map(|d| t < d).unwrap_or(true)
    }

    /// Upper bound of the weight a correct implementation may hold now.
    pub fn live_weight_upper(&self) -> u64 {
        self.entries
            .values()
            .filter(|e| !self.dead_at(e, self.now))
            .map(|e| e.weight as u64)
            .sum()
    }

    pub fn advance(&mut self, ns: u64) {
        self.now = self.now.saturating_add(ns);
    }

    /// A complete maintenance pass ran (sync kind): queued read records are applied.
    pub fn maintenance_pass(&mut self) {
        let pend = std::mem::take(&mut self.pending_reads);
        for (k, vid, t) in pend {
            if let Some(e) = self.entries.get_mut(&k) {
                if e.vid == vid && t > e.t_acc_guar {
                    e.t_acc_guar = t;
                }
            }
        }
    }

    fn weight_of(&self, w: u32) -> u32 {
        if self.cfg.weigher {
            w
        } else {
            1
        }
    }

    /// `insert(k, vid)` unwound from the weigher or from `V::clone` (concurrent cache).
    pub fn taint(&mut self, k: u16, vid: u32) {
        self.tainted.entry(k).or_default().insert(vid);
    }

    pub fn insert(&mut self, step: usize, k: u16, vid: u32, w: u32) {
        self.tainted.remove(&k);
        let weight = self.weight_of(w);
        if let Some(g) = self.gone.remove(&k) {
            if matches!(
                g,
                Gone::InvalidatedByKey | Gone::InvalidatedAll | Gone::InvalidatedIf
            ) {
                self.reinserted.insert(k);
                self.stats.reinserts_after_inval += 1;
            }
        }
        let now = self.now;
        self.entries.insert(
            k,
            MEntry {
                vid,
                weight,
                raw_w: w,
                t_mod: now,
                t_acc_true: now,
                t_acc_guar: now,
                step_mod: step,
                seen: false,
                hits_since_mod: 0,
                observations_since_mod: 0,
            },
        );
        if let Some(cap) = self.cfg.cap {
            if self.cap_safe && self.live_weight_upper() > cap {
                self.cap_safe = false;
                self.stats.latch_cleared += 1;
                self.stats.removal_causes += 1;
            }
        }
    }

    fn note_inval(&mut self, step: usize, removed: BTreeSet<u16>) {
        self.stats.inval_removed += removed.len() as u64;
        if !removed.is_empty() {
            self.stats.removal_causes += 1;
        }
        self.last_inval_step = Some(step);
        self.last_inval_removed = removed;
    }

    pub fn invalidate(&mut self, step: usize, k: u16) {
        self.tainted.remove(&k);
        let mut removed = BTreeSet::new();
        if self.entries.remove(&k).is_some() {
            self.gone.insert(k, Gone::InvalidatedByKey);
            removed.insert(k);
        }
        self.note_inval(step, removed);
    }

    pub fn invalidate_all(&mut self, step: usize) {
        let now = self.now;
        let kind = self.cfg.kind;
        let keys: Vec<u16> = self
            .entries
            .iter()
            .filter(|(_, e)| kind == Kind::Unsync || e.t_mod < now)
            .map(|(k, _)| *k)
            .collect();
        let mut removed = BTreeSet::new();
        for k in keys {
            self.entries.remove(&k);
            self.gone.insert(k, Gone::InvalidatedAll);
            removed.insert(k);
        }
        self.note_inval(step, removed);
    }

    pub fn invalidate_if(&mut self, step: usize, p: Pred) {
        let keys: Vec<u16> = self
            .entries
            .iter()
            .filter(|(k, e)| p.eval(**k, e.vid, e.raw_w))
            .map(|(k, _)| *k)
            .collect();
        let mut removed = BTreeSet::new();
        for k in keys {
            self.entries.remove(&k);
            self.gone.insert(k, Gone::InvalidatedIf);
            removed.insert(k);
        }
        self.note_inval(step, removed);
    }

    /// Judges one lookup result (`got` = value id observed, if any) for key `k` at the
    /// current reading. `kind`: "get" | "contains" | "iter". For contains the value id is
    /// unknown (`got_vid == None` with `present == true`).
    #[allow(clippy::too_many_arguments)]
    pub fn judge_lookup(
        &mut self,
        step: usize,
        kind: &'static str,
        k: u16,
        present: bool,
        got_vid: Option<u32>,
        read_record_queued: bool,
        out: &mut Vec<Violation>,
    ) {
        let t = self.now;
        self.stats.lookups += 1;
        if let Some(vs) = self.tainted.get(&k) {
            // nothing, or a value of a failed insert (contains_key cannot tell which value it
            // saw): accepted; any other value is judged as usual (MUST-NOT-SEE), and the
            // MUST-SEE side is off for this key
            let maybe = match got_vid {
                Some(g) => vs.contains(&g),
                None => true,
            };
            if !present || maybe {
                return;
            }
        }
        let mut v = |rule: &str, msg: String| {
            out.push(Violation {
                rule: rule.to_string(),
                msg,
                step,
                key: Some(k),
            })
        };
        let entry = self.entries.get(&k).cloned();
        if self.gone.contains_key(&k) || entry.as_ref().map(|e| e.seen).unwrap_or(false) {
            self.stats.lookups_nontrivial_c01 += 1;
        }
        if let Some(s) = self.last_inval_step {
            if s < step {
                if self.last_inval_removed.contains(&k) && entry.is_none() {
                    self.stats.inval_then_lookup_removed += 1;
                } else if entry.is_some() && !self.last_inval_removed.is_empty() {
                    self.stats.inval_then_lookup_survivor += 1;
                }
            }
        }
        match (&entry, present) {
            (None, true) => {
                self.stats.must_not_see_checked += 1;
                let why = self.gone.get(&k).copied().unwrap_or(Gone::Never);
                v(
                    "C01.phantom-or-stale",
                    format!(
                        "{}({}) returned {:?} at t={} but the model holds nothing for the key ({:?})",
                        kind, k, got_vid, t, why
                    ),
                );
                if matches!(
                    why,
                    Gone::InvalidatedByKey | Gone::InvalidatedAll | Gone::InvalidatedIf
                ) {
                    v(
                        "C07.visible-after-invalidation",
                        format!(
                            "{}({}) returned {:?} at t={} after the key was invalidated ({:?})",
                            kind, k, got_vid, t, why
                        ),
                    );
                }
            }
            (None, false) => {
                self.stats.must_not_see_checked += 1;
            }
            (Some(e), true) => {
                self.stats.must_not_see_checked += 1;
                if let Some(g) = got_vid {
                    if g != e.vid {
                        v(
                            "C01.phantom-or-stale",
                            format!(
                                "{}({}) returned value {} at t={} but the latest insert wrote {}",
                                kind, k, g, t, e.vid
                            ),
                        );
                    }
                }
                if let Some(d) = self.ttl_deadline(e) {
                    if t >= d {
                        v(
                            "C05.visible-after-ttl",
                            format!(
                                "{}({}) saw the entry at t={} >= t_mod({}) + ttl = {}",
                                kind, k, t, e.t_mod, d
                            ),
                        );
                    }
                }
                if let Some(d) = self.tti_deadline_upper(e) {
                    if t >= d {
                        v(
                            "C06.visible-after-tti",
                            format!(
                                "{}({}) saw the entry at t={} >= last_access({}) + tti = {}",
                                kind, k, t, e.t_acc_true, d
                            ),
                        );
                    }
                }
            }
            (Some(e), false) => {
                let dead = self.dead_at(e, t);
                if dead {
                    self.stats.must_not_see_checked += 1;
                    if e.seen {
                        if self.ttl_deadline(e).map(|d| t >= d).unwrap_or(false) {
                            self.stats.ttl_dead_lookups_seen_before += 1;
                        }
                        if self.tti_deadline_upper(e).map(|d| t >= d).unwrap_or(false) {
                            self.stats.tti_dead_lookups_seen_before += 1;
                            if e.observations_since_mod > 0 || e.hits_since_mod > 0 {
                                self.stats.tti_dead_after_observation += 1;
                            }
                        }
                    }
                } else if self.surely_alive_at(e, t) {
                    if self.cap_safe {
                        self.stats.must_see_checked += 1;
                        v(
                            "C03.lost-live-entry",
                            format!(
                                "{}({}) found nothing at t={} but value {} (t_mod={}, guaranteed last access={}) is live and total live weight never exceeded the capacity",
                                kind, k, t, e.vid, e.t_mod, e.t_acc_guar
                            ),
                        );
                        if self.reinserted.contains(&k) {
                            v(
                                "C07.reinserted-key-lost",
                                format!(
                                    "{}({}) found nothing at t={} although the key was re-inserted (value {}) after an invalidation",
                                    kind, k, t, e.vid
                                ),
                            );
                        }
                    }
                } else {
                    self.stats.gap_lookups += 1;
                }
            }
        }
        // boundary statistics
        if let Some(e) = &entry {
            if self.ttl_deadline(e) == Some(t) {
                self.stats.ttl_boundary_lookups += 1;
            }
            if self.tti_deadline_upper(e) == Some(t) {
                self.stats.tti_boundary_lookups += 1;
            }
        }
        // model update
        if let Some(e) = self.entries.get_mut(&k) {
            if present && (got_vid.is_none() || got_vid == Some(e.vid)) {
                e.seen = true;
                if kind == "get" {
                    e.hits_since_mod += 1;
                    if t > e.t_acc_true {
                        e.t_acc_true = t;
                    }
                    if self.cfg.kind == Kind::Unsync {
                        if t > e.t_acc_guar {
                            e.t_acc_guar = t;
                        }
                    } else if read_record_queued && self.track_reads {
                        self.pending_reads.push((k, e.vid, t));
                    }
                } else {
                    e.observations_since_mod += 1;
                }
            }
        }
    }

    /// Judges a whole iteration (Q5 / C16): no duplicates, every yielded pair passes
    /// MUST-NOT-SEE, every MUST-SEE entry is yielded.
    pub fn judge_iter(&mut self, step: usize, items: &[(u16, u32)], out: &mut Vec<Violation>) {
        let mut seen = BTreeSet::new();
        for (k, vid) in items {
            if !seen.insert(*k) {
                out.push(Violation {
                    rule: "C16.duplicate".into(),
                    msg: format!("iteration yielded key {} twice", k),
                    step,
                    key: Some(*k),
                });
            }
            let before = out.len();
            self.judge_lookup(step, "iter", *k, true, Some(*vid), false, out);
            if out.len() > before {
                let m = out[before].msg.clone();
                out.push(Violation {
                    rule: "C16.yielded-dead-or-stale".into(),
                    msg: m,
                    step,
                    key: Some(*k),
                });
            }
        }
        let keys: Vec<u16> = self.entries.keys().copied().collect();
        for k in keys {
            if !seen.contains(&k) {
                let before = out.len();
                self.judge_lookup(step, "iter", k, false, None, false, out);
                if out.len() > before {
                    let m = out[before].msg.clone();
                    out.push(Violation {
                        rule: "C16.missing-live-entry".into(),
                        msg: m,
                        step,
                        key: Some(k),
                    });
                }
            }
        }
    }

    /// A stepped iteration (`Op::IterSteps`): every yield is judged at the reading of its own
    /// `next()` call; an entry that is alive at the final reading was alive throughout (time
    /// only moves forward and nothing is written during the iteration) and must have been
    /// yielded; nothing is yielded twice.
    pub fn judge_iter_stepped(
        &mut self,
        step: usize,
        script: &[crate::ops::IterStep],
        yields: &[Option<(u16, u32)>],
        out: &mut Vec<Violation>,
    ) {
        use crate::ops::IterStep;
        let unsync = self.cfg.kind == Kind::Unsync;
        let mut seen = BTreeSet::new();
        let mut ys = yields.iter();
        let judge_yield = |m: &mut Model, y: &Option<(u16, u32)>, seen: &mut BTreeSet<u16>, out: &mut Vec<Violation>| {
            if let Some((k, vid)) = y {
                if !seen.insert(*k) {
                    out.push(Violation {
                        rule: "C16.duplicate".into(),
                        msg: format!("stepped iteration yielded key {} twice", k),
                        step,
                        key: Some(*k),
                    });
                }
                let before = out.len();
                m.judge_lookup(step, "iter", *k, true, Some(*vid), false, out);
                if out.len() > before {
                    let msg = format!("stepped iteration, at reading {}: {}", m.now, out[before].msg);
                    out.push(Violation {
                        rule: "C16.yielded-dead-or-stale".into(),
                        msg,
                        step,
                        key: Some(*k),
                    });
                }
            }
        };
        for s in script {
            match s {
                IterStep::Next => {
                    if let Some(y) = ys.next() {
                        judge_yield(self, y, &mut seen, out);
                    }
                }
                IterStep::Advance { ns } => self.advance(*ns),
                IterStep::InvalidateAll => {
                    if !unsync {
                        self.invalidate_all(step);
                    }
                }
            }
        }
        for y in ys {
            judge_yield(self, y, &mut seen, out);
        }
        let keys: Vec<u16> = self.entries.keys().copied().collect();
        for k in keys {
            if !seen.contains(&k) {
                let before = out.len();
                self.judge_lookup(step, "iter", k, false, None, false, out);
                if out.len() > before {
                    let m = format!("stepped iteration: {}", out[before].msg);
                    out.push(Violation {
                        rule: "C16.missing-live-entry".into(),
                        msg: m,
                        step,
                        key: Some(k),
                    });
                }
            }
        }
    }

    /// Accepts the implementation's evictions while the run is not capacity-safe and
    /// re-arms the latch when possible. `resident` = keys physically resident with the
    /// value ids the implementation holds.
    pub fn reconcile(&mut self, resident: &BTreeMap<u16, u32>) {
        if self.cap_safe {
            return;
        }
        let now = self.now;
        let keys: Vec<u16> = self.entries.keys().copied().collect();
        for k in keys {
            let e = &self.entries[&k];
            let phys = resident.get(&k).copied();
            if phys != Some(e.vid) && !self.dead_at(e, now) {
                // Evicted or rejected while over capacity: accepted.
                self.entries.remove(&k);
                self.gone.insert(k, Gone::Evicted);
            }
        }
        if let Some(cap) = self.cfg.cap {
            if self.live_weight_upper() <= cap {
                self.cap_safe = true;
                self.stats.latch_rearmed += 1;
            }
        }
    }
}

