//! The system under test: real `mini_moka` caches behind one small interface.

use std::sync::Arc;
use std::time::Duration;

use mini_moka::sync::ConcurrentCacheExt;
use mini_moka::verif::{Snapshot, VerifClock};

use crate::ops::{Config, Kind, Pred};
use crate::types::{Registry, SimBuildHasher, INJECTED_PANIC, K, V};

pub type SyncCache = mini_moka::sync::Cache<K, V, SimBuildHasher>;
pub type UnsyncCache = mini_moka::unsync::Cache<K, V, SimBuildHasher>;

pub fn build_sync(cfg: &Config, reg: &Arc<Registry>, clock: &VerifClock) -> SyncCache {
    let mut b = mini_moka::sync::Cache::builder();
    if let Some(c) = cfg.cap {
        b = b.max_capacity(c);
    }
    if let Some(n) = cfg.init_cap {
        b = b.initial_capacity(n);
    }
    if cfg.weigher {
        let reg = Arc::clone(reg);
        b = b.weigher(move |_k: &K, v: &V| {
            if reg.tick_weigh() {
                panic!("{}", INJECTED_PANIC);
            }
            v.weight
        });
    }
    if let Some(d) = cfg.ttl {
        b = b.time_to_live(Duration::from_nanos(d));
    }
    if let Some(d) = cfg.tti {
        b = b.time_to_idle(Duration::from_nanos(d));
    }
    mini_moka::verif::set_shard_amount(cfg.shards.unwrap_or(mini_moka::verif::SHARD_AMOUNT));
    let c = b.build_with_hasher(SimBuildHasher { mode: cfg.hasher });
    c.verif_set_clock(clock);
    c
}

pub fn build_unsync(cfg: &Config, reg: &Arc<Registry>, clock: &VerifClock) -> UnsyncCache {
    let mut b = mini_moka::unsync::Cache::builder();
    if let Some(c) = cfg.cap {
        b = b.max_capacity(c);
    }
    if let Some(n) = cfg.init_cap {
        b = b.initial_capacity(n);
    }
    if cfg.weigher {
        let reg = Arc::clone(reg);
        b = b.weigher(move |_k: &K, v: &V| {
            if reg.tick_weigh() {
                panic!("{}", INJECTED_PANIC);
            }
            v.weight
        });
    }
    if let Some(d) = cfg.ttl {
        b = b.time_to_live(Duration::from_nanos(d));
    }
    if let Some(d) = cfg.tti {
        b = b.time_to_idle(Duration::from_nanos(d));
    }
    let mut c = b.build_with_hasher(SimBuildHasher { mode: cfg.hasher });
    c.verif_set_clock(clock);
    c
}

pub enum Sut {
    Unsync(UnsyncCache),
    Sync(SyncCache),
}

impl Sut {
    pub fn build(cfg: &Config, reg: &Arc<Registry>, clock: &VerifClock) -> Sut {
        match cfg.kind {
            Kind::Unsync => Sut::Unsync(build_unsync(cfg, reg, clock)),
            Kind::Sync => Sut::Sync(build_sync(cfg, reg, clock)),
        }
    }

    pub fn insert(&mut self, k: u16, vid: u32, w: u32, reg: &Arc<Registry>) {
        let key = K::tracked(k, reg);
        let val = V::new(vid, w, reg);
        match self {
            Sut::Unsync(c) => c.insert(key, val),
            Sut::Sync(c) => c.insert(key, val),
        }
    }

    /// Returns the value id, dropping the returned clone/reference at once.
    pub fn get(&mut self, k: u16) -> Option<u32> {
        let key = K::probe(k);
        match self {
            Sut::Unsync(c) => c.get(&key).map(|v| v.id),
            Sut::Sync(c) => sync_get(c, &key),
        }
    }

    pub fn contains(&mut self, k: u16) -> bool {
        let key = K::probe(k);
        match self {
            Sut::Unsync(c) => c.contains_key(&key),
            Sut::Sync(c) => c.contains_key(&key),
        }
    }

    /// One full iteration, through one of the public ways of iterating (chosen by the
    /// number of iterations this thread has done so far, so that a trace determines it).
    pub fn iter(&mut self) -> Vec<(u16, u32)> {
        match self {
            Sut::Unsync(c) => match next_variant() % 2 {
                0 => c.iter().map(|(k, v)| (k.k, v.id)).collect(),
                _ => crate::types::parse_debug_map(&format!("{:?}", c)),
            },
            Sut::Sync(c) => sync_iter(c),
        }
    }

    /// One iterator, stepped through `script`; whatever is left is drained at the end.
    pub fn iter_stepped(&mut self, script: &[crate::ops::IterStep], clock: &VerifClock) -> Vec<Option<(u16, u32)>> {
        use crate::ops::IterStep;
        let mut out = Vec::new();
        match self {
            Sut::Unsync(c) => {
                let mut it = c.iter().map(|(k, v)| (k.k, v.id));
                for s in script {
                    match s {
                        IterStep::Next => out.push(it.next()),
                        IterStep::Advance { ns } => clock.advance(std::time::Duration::from_nanos(*ns)),
                        IterStep::InvalidateAll => {} // needs &mut: not expressible while iterating
                    }
                }
                for p in it {
                    out.push(Some(p));
                }
            }
            Sut::Sync(c) => {
                let mut it = c.iter().map(|e| (e.key().k, e.value().id));
                for s in script {
                    match s {
                        IterStep::Next => out.push(it.next()),
                        IterStep::Advance { ns } => clock.advance(std::time::Duration::from_nanos(*ns)),
                        IterStep::InvalidateAll => c.invalidate_all(),
                    }
                }
                for p in it {
                    out.push(Some(p));
                }
            }
        }
        out
    }

    pub fn invalidate(&mut self, k: u16) {
        let key = K::probe(k);
        match self {
            Sut::Unsync(c) => c.invalidate(&key),
            Sut::Sync(c) => c.invalidate(&key),
        }
    }

    pub fn invalidate_all(&mut self) {
        match self {
            Sut::Unsync(c) => c.invalidate_all(),
            Sut::Sync(c) => c.invalidate_all(),
        }
    }

    pub fn invalidate_if(&mut self, p: Pred, reg: &Arc<Registry>) {
        match self {
            Sut::Unsync(c) => c.invalidate_entries_if(move |k, v| {
                if reg.tick_pred() {
                    panic!("{}", INJECTED_PANIC);
                }
                p.eval(k.k, v.id, v.weight)
            }),
            Sut::Sync(_) => {}
        }
    }

    pub fn sync(&mut self) {
        if let Sut::Sync(c) = self {
            c.sync();
        }
    }

    pub fn entry_count(&self) -> u64 {
        match self {
            Sut::Unsync(c) => c.entry_count(),
            Sut::Sync(c) => c.entry_count(),
        }
    }

    pub fn weighted_size(&self) -> u64 {
        match self {
            Sut::Unsync(c) => c.weighted_size(),
            Sut::Sync(c) => c.weighted_size(),
        }
    }

    pub fn estimate(&self, k: u16) -> u8 {
        let key = K::probe(k);
        match self {
            Sut::Unsync(c) => c.verif_estimate(&key),
            Sut::Sync(c) => c.verif_estimate(&key),
        }
    }

    pub fn snapshot(&self, base: std::time::Instant, weigher: bool) -> Snapshot {
        let kf = |k: &K| k.k as u64;
        let vf = |v: &V| v.id as u64 | ((v.weight as u64) << 32);
        let mut s = match self {
            Sut::Unsync(c) => {
                let mut s = c.verif_snapshot(base, &kf, &vf);
                s.entry_count = c.entry_count();
                s.weighted_size = c.weighted_size();
                s
            }
            Sut::Sync(c) => {
                let mut s = c.verif_snapshot(base, &kf, &vf);
                s.entry_count = c.entry_count();
                s.weighted_size = c.weighted_size();
                s
            }
        };
        decode(&mut s, weigher);
        s
    }

    pub fn is_sync(&self) -> bool {
        matches!(self, Sut::Sync(_))
    }
}

pub fn sync_snapshot(c: &SyncCache, base: std::time::Instant, weigher: bool) -> Snapshot {
    let kf = |k: &K| k.k as u64;
    let vf = |v: &V| v.id as u64 | ((v.weight as u64) << 32);
    let mut s = c.verif_snapshot(base, &kf, &vf);
    // what the oracles compare is what the public getters report
    s.entry_count = c.entry_count();
    s.weighted_size = c.weighted_size();
    decode(&mut s, weigher);
    s
}

thread_local! {
    static VARIANT: std::cell::Cell<u32> = const { std::cell::Cell::new(0) };
}

/// Per-thread counter that rotates through the equivalent public entry points.
fn next_variant() -> u32 {
    VARIANT.with(|v| {
        let x = v.get();
        v.set(x.wrapping_add(1));
        x
    })
}

/// Resets the rotation (start of a run / of a thread's program).
pub fn reset_variants() {
    VARIANT.with(|v| v.set(0));
}

/// `get`, every fifth time through the deprecated alias `get_if_present`.
pub fn sync_get(c: &SyncCache, key: &K) -> Option<u32> {
    if next_variant() % 5 == 4 {
        #[allow(deprecated)]
        let r = c.get_if_present(key).map(|v| v.id);
        r
    } else {
        c.get(key).map(|v| v.id)
    }
}

/// One full iteration of the concurrent cache: `iter()` with `key()/value()`, `&cache` as
/// `IntoIterator` with `pair()` / `Deref`, or the `Debug` rendering.
pub fn sync_iter(c: &SyncCache) -> Vec<(u16, u32)> {
    match next_variant() % 3 {
        0 => c.iter().map(|e| (e.key().k, e.value().id)).collect(),
        1 => {
            let mut out = Vec::new();
            for e in c {
                let (k, v) = e.pair();
                let via_deref: &V = &e;
                out.push((k.k, v.id.max(via_deref.id)));
            }
            out
        }
        _ => crate::types::parse_debug_map(&format!("{:?}", c)),
    }
}

/// Splits the (value id, raw weight) pair the snapshot closure packed into `value`:
/// afterwards `value` is the value id and `weight` is the *true* weight of the resident
/// value (what the weigher returns for it; 1 without a weigher), not the weight the
/// policy has accounted for it.
fn decode(s: &mut Snapshot, weigher: bool) {
    for e in s.entries.iter_mut() {
        let raw = (e.value >> 32) as u32;
        e.value &= 0xffff_ffff;
        e.weight = if weigher { raw } else { 1 };
    }
}

pub fn sync_now(c: &SyncCache) {
    c.sync();
}
