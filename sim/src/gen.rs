//! Seeded generation of configurations and histories (swarm style: every knob varies
//! per run). One sub-seed decides everything; the result is an explicit `Trace`.

use std::collections::BTreeMap;

use crate::ops::{CallbackFaults, Config, Engine, Faults, Kind, Op, OpRec, Origin, Pred, Trace};
use crate::prng::{mix, Prng};
use crate::types::HashMode;

pub const SEC: u64 = 1_000_000_000;
pub const MS: u64 = 1_000_000;

#[derive(Clone, Copy, Debug, PartialEq, Eq)]
pub enum Pop {
    /// Full swarm over both cache kinds.
    SeqMixed,
    /// Expiry-heavy: ttl/tti always on, boundary-biased clock.
    SeqExpiry,
    /// Tight capacities, popularity building, quiescent steps (C12/C13).
    SeqPolicy,
    /// Invalidation-heavy.
    SeqInval,
    /// Caller-callback panics (separate population).
    SeqCallback,
    /// Metamorphic pairs (C15).
    Pair,
    /// Long un-synced histories that saturate the queues.
    SeqLong,
    /// Wide key universes (more entries than one eviction/purge batch handles).
    SeqWide,
    /// seq-mixed histories with extreme weights (2^31, u32::MAX) and capacities (2^32 .. u64::MAX):
    /// the arithmetic of the weight accounting (C08 overflow, C04, C10).
    SeqHuge,
    /// Adversarial hasher for the popularity sketch (HashMode::SketchSpread): sketch
    /// capacities just above a power of two, hundreds of keys looked up once each.
    SeqSketch,
}

impl Pop {
    pub fn parse(s: &str) -> Option<Pop> {
        Some(match s {
            "seq-mixed" => Pop::SeqMixed,
            "seq-expiry" => Pop::SeqExpiry,
            "seq-policy" => Pop::SeqPolicy,
            "seq-inval" => Pop::SeqInval,
            "seq-callback" => Pop::SeqCallback,
            "pair" => Pop::Pair,
            "seq-long" => Pop::SeqLong,
            "seq-wide" => Pop::SeqWide,
            "seq-huge" => Pop::SeqHuge,
            "seq-sketch" => Pop::SeqSketch,
            _ => return None,
        })
    }
    pub fn name(&self) -> &'static str {
        match self {
            Pop::SeqMixed => "seq-mixed",
            Pop::SeqExpiry => "seq-expiry",
            Pop::SeqPolicy => "seq-policy",
            Pop::SeqInval => "seq-inval",
            Pop::SeqCallback => "seq-callback",
            Pop::Pair => "pair",
            Pop::SeqLong => "seq-long",
            Pop::SeqWide => "seq-wide",
            Pop::SeqHuge => "seq-huge",
            Pop::SeqSketch => "seq-sketch",
        }
    }
    pub fn stream(&self) -> u64 {
        match self {
            Pop::SeqMixed => 1,
            Pop::SeqExpiry => 2,
            Pop::SeqPolicy => 3,
            Pop::SeqInval => 4,
            Pop::SeqCallback => 5,
            Pop::Pair => 6,
            Pop::SeqLong => 7,
            Pop::SeqWide => 8,
            Pop::SeqHuge => 9,
            Pop::SeqSketch => 10,
        }
    }
}

#[derive(Clone, Copy, Debug, PartialEq, Eq)]
enum SyncPolicy {
    Every,
    Never,
    Bernoulli(u64), // per mille
}

struct Shadow {
    t_mod: u64,
    t_acc: u64,
}

pub struct GenCtx {
    pub rng: Prng,
    pub now: u64,
    pub next_vid: u32,
    shadow: BTreeMap<u16, Shadow>,
}

pub fn gen_config(rng: &mut Prng, pop: Pop) -> Config {
    let kind = match pop {
        Pop::SeqLong => Kind::Sync,
        _ => {
            if rng.chance(1, 2) {
                Kind::Unsync
            } else {
                Kind::Sync
            }
        }
    };
    let cap = match pop {
        Pop::SeqWide => *rng.pick(&[None, None, Some(150u64), Some(600)]),
        Pop::SeqPolicy => Some(*rng.pick(&[1u64, 2, 2, 3, 3, 4, 4, 5, 6, 8, 12, 16])),
        Pop::Pair => {
            if rng.chance(4, 5) {
                Some(*rng.pick(&[1u64, 2, 2, 3, 3, 4, 6]))
            } else {
                None
            }
        }
        _ => *rng.pick(&[
            None,
            None,
            Some(0),
            Some(1),
            Some(2),
            Some(2),
            Some(3),
            Some(4),
            Some(4),
            Some(8),
            Some(16),
        ]),
    };
    let weigher = rng.chance(1, 2);
    let durs: [Option<u64>; 8] = [
        None,
        None,
        None,
        Some(0),
        Some(1),
        Some(7 * SEC),
        Some(10 * SEC),
        Some(10 * SEC),
    ];
    let (ttl, tti) = match pop {
        Pop::SeqWide => match rng.below(4) {
            0 => (Some(3 * SEC), None),
            1 => (None, Some(3 * SEC)),
            2 => (Some(7 * SEC), Some(3 * SEC)),
            _ => (None, None),
        },
        Pop::SeqExpiry => {
            let d: [u64; 6] = [0, 1, 3 * SEC, 7 * SEC, 10 * SEC, 10 * SEC];
            match rng.below(3) {
                0 => (Some(*rng.pick(&d)), None),
                1 => (None, Some(*rng.pick(&d))),
                _ => (Some(*rng.pick(&d)), Some(*rng.pick(&d))),
            }
        }
        Pop::SeqPolicy => {
            if rng.chance(3, 4) {
                (None, None)
            } else {
                (
                    *rng.pick(&[None, Some(7 * SEC), Some(10 * SEC)]),
                    *rng.pick(&[None, Some(7 * SEC), Some(10 * SEC)]),
                )
            }
        }
        Pop::Pair => (
            *rng.pick(&[None, None, Some(7 * SEC), Some(10 * SEC)]),
            *rng.pick(&[None, Some(5 * SEC), Some(7 * SEC), Some(10 * SEC)]),
        ),
        _ => (*rng.pick(&durs), *rng.pick(&durs)),
    };
    let hasher = match rng.below(10) {
        0 | 1 => HashMode::Collide1,
        2 => HashMode::Collide2,
        _ => HashMode::Fixed,
    };
    let init_cap = *rng.pick(&[None, None, Some(0usize), Some(7)]);
    Config {
        kind,
        cap,
        weigher,
        ttl,
        tti,
        hasher,
        init_cap,
        shards: None,
        wlock_sp: false,
    }
}

impl GenCtx {
    fn weight(&mut self, cfg: &Config) -> u32 {
        if !cfg.weigher {
            return self.rng.below(3) as u32; // ignored by the cache, seen by predicates
        }
        if let Some(cap) = cfg.cap {
            if self.rng.chance(1, 20) {
                return (cap as u32).saturating_add(1 + self.rng.below(3) as u32);
            }
            // wide caches: an occasional weight of the order of the capacity itself (one update
            // then creates an excess that a single eviction batch cannot give back)
            if cap >= 100 && self.rng.chance(1, 25) {
                return (cap / 2 + self.rng.below(cap / 2 + 1)) as u32;
            }
        }
        *self.rng.pick(&[0u32, 1, 1, 1, 2, 2, 3, 4])
    }

    fn key(&mut self, universe: u16) -> u16 {
        self.rng.below(universe as u64) as u16
    }

    /// An advance that lands on / next to an expiry deadline of some live key, if any.
    fn boundary_advance(&mut self, cfg: &Config) -> Option<u64> {
        let keys: Vec<u16> = self.shadow.keys().copied().collect();
        if keys.is_empty() {
            return None;
        }
        let k = *self.rng.pick(&keys);
        let s = &self.shadow[&k];
        let mut deadlines = Vec::new();
        if let Some(d) = cfg.ttl {
            deadlines.push(s.t_mod + d);
        }
        if let Some(d) = cfg.tti {
            deadlines.push(s.t_acc + d);
        }
        if deadlines.is_empty() {
            return None;
        }
        let dl = *self.rng.pick(&deadlines);
        let target = match self.rng.below(4) {
            0 => dl.saturating_sub(1),
            1 | 2 => dl,
            _ => dl + 1,
        };
        if target > self.now {
            Some(target - self.now)
        } else {
            None
        }
    }

    fn advance(&mut self, cfg: &Config, boundary_bias: u64) -> u64 {
        if self.rng.chance(boundary_bias, 10) {
            if let Some(ns) = self.boundary_advance(cfg) {
                return ns;
            }
        }
        *self.rng.pick(&[
            1u64,
            1,
            MS,
            499 * MS,
            500 * MS,
            501 * MS,
            SEC,
            3 * SEC,
            5 * SEC,
            7 * SEC,
            10 * SEC,
            11 * SEC,
            3600 * SEC,
            86400 * 365 * SEC,
        ])
    }

    fn note(&mut self, op: &Op) {
        match op {
            Op::Insert { k, .. } => {
                self.shadow.insert(
                    *k,
                    Shadow {
                        t_mod: self.now,
                        t_acc: self.now,
                    },
                );
            }
            Op::Get { k } => {
                if let Some(s) = self.shadow.get_mut(k) {
                    s.t_acc = self.now;
                }
            }
            Op::Invalidate { k } => {
                self.shadow.remove(k);
            }
            Op::InvalidateAll => self.shadow.clear(),
            Op::Advance { ns } => self.now = self.now.saturating_add(*ns),
            Op::IterSteps { script } => {
                for s in script {
                    match s {
                        crate::ops::IterStep::Advance { ns } => self.now = self.now.saturating_add(*ns),
                        crate::ops::IterStep::InvalidateAll => self.shadow.clear(),
                        crate::ops::IterStep::Next => {}
                    }
                }
            }
            _ => {}
        }
    }

    /// A stepped iteration: `next()` calls with clock advances (boundary-biased) and, on the
    /// concurrent cache, an occasional `invalidate_all` in between. Drawn from its own
    /// stream so that the main stream of a history does not depend on it.
    fn iter_script(&mut self, cfg: &Config, universe: u16, sub: u64, pos: usize) -> Vec<crate::ops::IterStep> {
        use crate::ops::IterStep;
        let mut r = Prng::new(mix(sub, 79, pos as u64));
        let mut script = Vec::new();
        let n = r.range(1, universe as u64 + 2) as usize;
        let mut now = self.now;
        for _ in 0..n {
            match r.weighted(&[6, if cfg.has_expiry() { 4 } else { 1 }, if cfg.kind == Kind::Sync { 1 } else { 0 }]) {
                0 => script.push(IterStep::Next),
                1 => {
                    // land on / next to a deadline of some live key, or move a little
                    let mut ns = *r.pick(&[1u64, 1, MS, SEC, 3 * SEC, 7 * SEC, 10 * SEC]);
                    if r.chance(6, 10) && !self.shadow.is_empty() {
                        let keys: Vec<u16> = self.shadow.keys().copied().collect();
                        let s = &self.shadow[r.pick(&keys)];
                        let mut dls = Vec::new();
                        if let Some(d) = cfg.ttl {
                            dls.push(s.t_mod + d);
                        }
                        if let Some(d) = cfg.tti {
                            dls.push(s.t_acc + d);
                        }
                        if !dls.is_empty() {
                            let dl = *r.pick(&dls);
                            let target = match r.below(4) {
                                0 => dl.saturating_sub(1),
                                1 | 2 => dl,
                                _ => dl + 1,
                            };
                            if target > now {
                                ns = target - now;
                            }
                        }
                    }
                    now = now.saturating_add(ns);
                    script.push(IterStep::Advance { ns });
                }
                _ => script.push(IterStep::InvalidateAll),
            }
        }
        script
    }
}

fn pred(rng: &mut Prng, universe: u16) -> Pred {
    match rng.below(6) {
        0 | 1 => Pred::KeyLt(rng.below(universe as u64 + 1) as u16),
        2 => Pred::ValOdd,
        3 => Pred::WeightEq(rng.below(4) as u32),
        4 => Pred::True,
        _ => Pred::False,
    }
}

/// Op kinds the mix chooses among.
const N_KINDS: usize = 9;
const K_INSERT: usize = 0;
const K_GET: usize = 1;
const K_CONTAINS: usize = 2;
const K_ITER: usize = 3;
const K_INVAL: usize = 4;
const K_INVAL_ALL: usize = 5;
const K_INVAL_IF: usize = 6;
const K_ADVANCE: usize = 7;
const K_SYNC: usize = 8;

fn random_mix(rng: &mut Prng, pop: Pop, cfg: &Config) -> [u32; N_KINDS] {
    let lv = [0u32, 1, 2, 4, 8];
    let mut m = [0u32; N_KINDS];
    for x in m.iter_mut() {
        *x = *rng.pick(&lv);
    }
    m[K_INSERT] = m[K_INSERT].max(2);
    m[K_GET] = m[K_GET].max(1);
    match pop {
        Pop::SeqPolicy => {
            m[K_INSERT] = 6;
            m[K_GET] = *rng.pick(&[4u32, 8, 12]);
            m[K_CONTAINS] = m[K_CONTAINS].min(1);
            m[K_ITER] = m[K_ITER].min(1);
            m[K_INVAL] = m[K_INVAL].min(1);
            m[K_INVAL_ALL] = if rng.chance(1, 4) { 1 } else { 0 };
            m[K_INVAL_IF] = if rng.chance(1, 4) { 1 } else { 0 };
            m[K_ADVANCE] = if cfg.has_expiry() { 2 } else { 0 };
        }
        Pop::SeqInval => {
            m[K_INVAL] = m[K_INVAL].max(2);
            m[K_INVAL_ALL] = m[K_INVAL_ALL].max(1);
            m[K_INVAL_IF] = m[K_INVAL_IF].max(1);
            m[K_INSERT] = m[K_INSERT].max(4);
            m[K_GET] = m[K_GET].max(4);
        }
        Pop::SeqExpiry => {
            m[K_ADVANCE] = m[K_ADVANCE].max(4);
            m[K_GET] = m[K_GET].max(4);
            m[K_CONTAINS] = m[K_CONTAINS].max(1);
            m[K_ITER] = m[K_ITER].max(1);
            m[K_INVAL_ALL] = m[K_INVAL_ALL].min(1);
        }
        Pop::SeqWide => {
            // removals and clock jumps are rare, so that more entries accumulate than one
            // purge / eviction batch (100 on unsync) handles
            m[K_INSERT] = 200;
            m[K_GET] = 40;
            m[K_CONTAINS] = 20;
            m[K_ITER] = 4;
            m[K_INVAL] = 8;
            m[K_INVAL_ALL] = if rng.chance(1, 3) { 1 } else { 0 };
            m[K_INVAL_IF] = if rng.chance(1, 3) { 1 } else { 0 };
            m[K_ADVANCE] = if cfg.has_expiry() { 2 } else { 0 };
            m[K_SYNC] = 3;
        }
        Pop::Pair => {
            m[K_INSERT] = 6;
            m[K_GET] = 6;
            m[K_CONTAINS] = 1;
            m[K_ITER] = 1;
            m[K_ADVANCE] = if cfg.has_expiry() { 3 } else { 0 };
            m[K_INVAL] = m[K_INVAL].min(1);
            m[K_INVAL_ALL] = 0;
            m[K_INVAL_IF] = m[K_INVAL_IF].min(1);
        }
        _ => {}
    }
    if cfg.kind == Kind::Sync {
        m[K_INVAL_IF] = 0;
    } else {
        m[K_SYNC] = 0;
    }
    m
}

pub fn generate(pop: Pop, seed: u64, run: u64) -> Trace {
    if pop == Pop::SeqHuge {
        // a seq-mixed history (of another seed) whose weights and capacity are scaled up
        let mut t = generate(Pop::SeqMixed, mix(seed, pop.stream(), 0), run);
        let mut rng = Prng::new(mix(seed, pop.stream() + 100, run));
        t.config.weigher = true;
        t.config.cap = *rng.pick(&[
            None,
            Some(u64::MAX),
            Some(u64::MAX - 1),
            Some(1u64 << 32),
            Some((1u64 << 33) + 1),
            Some(u32::MAX as u64),
            Some(3 * (u32::MAX as u64)),
        ]);
        let table: [u32; 5] = [0, 1, 1 << 31, u32::MAX - 1, u32::MAX];
        for th in t.threads.iter_mut() {
            for o in th.iter_mut() {
                if let Op::Insert { w, .. } = &mut o.op {
                    *w = if (*w as usize) < table.len() { table[*w as usize] } else { u32::MAX };
                }
            }
        }
        if let Some(o) = t.origin.as_mut() {
            o.population = "seq-huge".to_string();
            o.seed = seed;
        }
        return t;
    }
    if pop == Pop::SeqSketch {
        return generate_sketch(seed, run);
    }
    let sub = mix(seed, pop.stream(), run);
    let mut rng = Prng::new(sub);
    let cfg = gen_config(&mut rng, pop);
    let universe: u16 = match pop {
        Pop::SeqWide => rng.range(110, 400) as u16,
        Pop::SeqPolicy => {
            let c = cfg.cap.unwrap_or(4) as u16;
            (c + 1 + rng.below(3) as u16).min(crate::seq::KEY_UNIVERSE_MAX)
        }
        _ => 1 + rng.below(6) as u16,
    };
    let len = match pop {
        Pop::SeqWide => rng.range(250, 900) as usize,
        Pop::SeqLong => rng.range(400, 1500) as usize,
        Pop::SeqPolicy => rng.range(5, 80) as usize,
        Pop::Pair => rng.range(3, 40) as usize,
        _ => {
            if rng.chance(9, 10) {
                rng.range(1, 60) as usize
            } else {
                rng.range(60, 500) as usize
            }
        }
    };
    let sync_policy = if cfg.kind == Kind::Unsync {
        SyncPolicy::Never
    } else {
        match pop {
            Pop::SeqPolicy => SyncPolicy::Every,
            Pop::SeqLong => SyncPolicy::Never,
            _ => match rng.below(4) {
                0 => SyncPolicy::Every,
                1 => SyncPolicy::Never,
                2 => SyncPolicy::Bernoulli(100),
                _ => SyncPolicy::Bernoulli(300),
            },
        }
    };
    // regime B: every operation is preceded by an advance beyond the periodic-sync interval
    let regime_b = cfg.kind == Kind::Sync
        && match pop {
            Pop::SeqPolicy => false,
            Pop::SeqLong => rng.chance(1, 2),
            _ => rng.chance(1, 3),
        };
    let fault_injecting = cfg.kind == Kind::Sync
        && !matches!(pop, Pop::SeqPolicy | Pop::Pair)
        && rng.chance(1, 2);
    let f_read = fault_injecting && rng.chance(1, 2);
    let f_hk = fault_injecting && rng.chance(1, 2);
    let f_wfull = fault_injecting && rng.chance(1, 2);
    let boundary_bias = match pop {
        Pop::SeqExpiry => 7,
        _ => 3,
    };
    let phased = matches!(pop, Pop::SeqMixed | Pop::SeqInval | Pop::SeqExpiry) && rng.chance(3, 10);

    let mut mixw = random_mix(&mut rng, pop, &cfg);
    let mut ctx = GenCtx {
        rng,
        now: 0,
        next_vid: 1,
        shadow: BTreeMap::new(),
    };
    let mut ops: Vec<OpRec> = Vec::new();
    let mut phase_left = 0usize;
    let mut n_real = 0usize;
    if pop == Pop::SeqWide && ctx.rng.chance(7, 10) {
        // scripted shape: fill more keys than one purge / eviction batch handles, make them
        // (or a prefix of them) expire or invalidate them, then look at once at the youngest
        let rounds = ctx.rng.range(1, 3);
        for _ in 0..rounds {
            let fill = ctx.rng.range(105, universe as u64) as u16;
            let start = ctx.rng.below((universe - fill + 1) as u64) as u16;
            for k in start..start + fill {
                let w = ctx.weight(&cfg);
                let vid = ctx.next_vid;
                ctx.next_vid += 1;
                let op = Op::Insert { k, vid, w };
                ctx.note(&op);
                ops.push(OpRec::plain(op));
                if cfg.kind == Kind::Sync && ctx.rng.chance(1, 40) {
                    ops.push(OpRec::plain(Op::Sync));
                }
                if cfg.has_expiry() && ctx.rng.chance(1, 60) {
                    let op = Op::Advance { ns: *ctx.rng.pick(&[1u64, MS, 499 * MS, SEC]) };
                    ctx.note(&op);
                    ops.push(OpRec::plain(op));
                }
            }
            let removal = match ctx.rng.below(4) {
                0 if cfg.kind == Kind::Unsync => Op::InvalidateIf { p: Pred::KeyLt(start + fill / 2) },
                1 => Op::InvalidateAll,
                _ if cfg.has_expiry() => Op::Advance { ns: ctx.advance(&cfg, 5) },
                _ => Op::Get { k: start },
            };
            ctx.note(&removal);
            ops.push(OpRec::plain(removal));
            for _ in 0..ctx.rng.range(2, 12) {
                let k = if ctx.rng.chance(2, 3) {
                    start + fill - 1 - ctx.rng.below(fill.min(40) as u64) as u16
                } else {
                    ctx.key(universe)
                };
                let op = match ctx.rng.below(5) {
                    0 | 1 => Op::Get { k },
                    2 | 3 => Op::Contains { k },
                    _ => Op::Iter,
                };
                ctx.note(&op);
                ops.push(OpRec::plain(op));
            }
        }
        n_real = ops.len().min(len.saturating_sub(30));
    }
    while n_real < len {
        if phased && phase_left == 0 {
            // fill -> remove (expire / invalidate) -> refill phases
            phase_left = ctx.rng.range(2, 10) as usize;
            mixw = random_mix(&mut ctx.rng, pop, &cfg);
            match ctx.rng.below(3) {
                0 => {
                    mixw[K_INSERT] = 12;
                }
                1 => {
                    mixw[K_ADVANCE] = if cfg.has_expiry() { 8 } else { 0 };
                    mixw[K_INVAL] = 4;
                    mixw[K_INVAL_ALL] = 2;
                    if cfg.kind == Kind::Unsync {
                        mixw[K_INVAL_IF] = 2;
                    }
                }
                _ => {
                    mixw[K_GET] = 8;
                    mixw[K_CONTAINS] = 2;
                    mixw[K_ITER] = 2;
                }
            }
        }
        if phase_left > 0 {
            phase_left -= 1;
        }
        if regime_b {
            let ns = *ctx.rng.pick(&[501 * MS, 501 * MS, 600 * MS, SEC, 2 * SEC]);
            let op = Op::Advance { ns };
            ctx.note(&op);
            ops.push(OpRec::plain(op));
        }
        let kind = ctx.rng.weighted(&mixw);
        let op = match kind {
            K_INSERT => {
                let k = ctx.key(universe);
                let w = ctx.weight(&cfg);
                let vid = ctx.next_vid;
                ctx.next_vid += 1;
                Op::Insert { k, vid, w }
            }
            K_GET => Op::Get {
                k: ctx.key(universe),
            },
            K_CONTAINS => Op::Contains {
                k: ctx.key(universe),
            },
            K_ITER => {
                let stepped = !matches!(pop, Pop::SeqPolicy | Pop::Pair) && Prng::new(mix(sub, 80, ops.len() as u64)).chance(1, 3);
                if stepped {
                    Op::IterSteps { script: ctx.iter_script(&cfg, universe, sub, ops.len()) }
                } else {
                    Op::Iter
                }
            }
            K_INVAL => Op::Invalidate {
                k: ctx.key(universe),
            },
            K_INVAL_ALL => Op::InvalidateAll,
            K_INVAL_IF => Op::InvalidateIf {
                p: pred(&mut ctx.rng, universe),
            },
            K_ADVANCE => Op::Advance {
                ns: ctx.advance(&cfg, boundary_bias),
            },
            _ => Op::Sync,
        };
        let mut f = Faults::default();
        if cfg.kind == Kind::Sync {
            if f_read && matches!(op, Op::Get { .. }) && ctx.rng.chance(1, 8) {
                f.read_drop = true;
            }
            if f_hk
                && matches!(op, Op::Get { .. } | Op::Insert { .. } | Op::Invalidate { .. })
                && ctx.rng.chance(1, 8)
            {
                f.hk_contended = ctx.rng.range(1, 3) as u8;
            }
            if f_wfull && matches!(op, Op::Insert { .. } | Op::Invalidate { .. }) && ctx.rng.chance(1, 8)
            {
                f.write_full = ctx.rng.range(1, 8) as u8;
            }
        }
        ctx.note(&op);
        let is_sync_op = op == Op::Sync;
        ops.push(OpRec { op, f });
        n_real += 1;
        if !is_sync_op {
            match sync_policy {
                SyncPolicy::Every => ops.push(OpRec::plain(Op::Sync)),
                SyncPolicy::Bernoulli(pm) => {
                    if ctx.rng.chance(pm, 1000) {
                        ops.push(OpRec::plain(Op::Sync));
                    }
                }
                SyncPolicy::Never => {}
            }
        }
    }
    // most sync histories end with a quiescent point (not all: the cache is also
    // dropped with records still queued)
    if cfg.kind == Kind::Sync && ctx.rng.chance(2, 3) {
        ops.push(OpRec::plain(Op::Sync));
        ops.push(OpRec::plain(Op::Sync));
    }

    let mut extra = Vec::new();
    let mut engine = Engine::Seq;
    if pop == Pop::Pair {
        engine = Engine::Pair;
        // insert 1..4 extra observation calls at random positions
        let n_extra = ctx.rng.range(1, 4) as usize;
        for _ in 0..n_extra {
            let pos = ctx.rng.below(ops.len() as u64 + 1) as usize;
            let op = if ctx.rng.chance(2, 3) {
                Op::Contains {
                    k: if ctx.rng.chance(1, 5) {
                        universe + 1
                    } else {
                        ctx.key(universe)
                    },
                }
            } else {
                Op::Iter
            };
            ops.insert(pos, OpRec::plain(op));
            for e in extra.iter_mut() {
                if *e >= pos {
                    *e += 1;
                }
            }
            extra.push(pos);
        }
        extra.sort();
    }
    let mut callback_faults = CallbackFaults::default();
    if pop == Pop::SeqCallback {
        if ctx.rng.chance(1, 2) {
            callback_faults.clone_panic_at = Some(ctx.rng.below(len as u64 + 1) as u32);
        }
        if cfg.weigher && (callback_faults.clone_panic_at.is_none() || ctx.rng.chance(1, 2)) {
            callback_faults.weigh_panic_at = Some(ctx.rng.below(2 * len as u64 + 1) as u32);
        }
        if callback_faults == CallbackFaults::default() {
            callback_faults.clone_panic_at = Some(ctx.rng.below(len as u64 + 1) as u32);
        }
        // unsync: sometimes the predicate of invalidate_entries_if panics instead
        if cfg.kind == Kind::Unsync && ctx.rng.chance(1, 4) {
            callback_faults = CallbackFaults::default();
            callback_faults.pred_panic_at = Some(ctx.rng.below(12) as u32);
        }
        // a third of the runs: the key's own Hash / Eq panics instead
        if ctx.rng.chance(1, 3) {
            callback_faults = CallbackFaults::default();
            if ctx.rng.chance(1, 2) {
                callback_faults.hash_panic_at = Some(ctx.rng.below(4 * len as u64 + 1) as u32);
            } else {
                callback_faults.eq_panic_at = Some(ctx.rng.below(3 * len as u64 + 1) as u32);
            }
        }
    }
    Trace {
        engine,
        config: cfg,
        threads: vec![ops],
        extra,
        schedule: Vec::new(),
        sched: None,
        prologue: Vec::new(),
        callback_faults,
        origin: Some(Origin {
            seed,
            run,
            population: pop.name().to_string(),
        }),
    }
}

/// `seq-sketch`: the arithmetic of the popularity sketch's aging step under a hasher that
/// spreads keys perfectly over its counters. The sketch is sized from `max_capacity`
/// (129..=250: a 256-word table, aging after `10 * max_capacity` counted lookups); it is
/// switched on once the cache is half full; then several hundred keys are looked up once each
/// (their counters become odd), others an even number of times (parities unchanged), in
/// random order and mixed with ordinary traffic, until aging has run at least once.
fn generate_sketch(seed: u64, run: u64) -> Trace {
    let pop = Pop::SeqSketch;
    let mut rng = Prng::new(mix(seed, pop.stream(), run));
    let kind = if rng.chance(1, 2) { Kind::Unsync } else { Kind::Sync };
    let cap = *rng.pick(&[129u64, 129, 130, 136, 150, 160, 180, 200, 250]);
    let cfg = Config {
        kind,
        cap: Some(cap),
        weigher: false,
        ttl: None,
        tti: if rng.chance(1, 6) { Some(3600 * SEC) } else { None },
        hasher: HashMode::SketchSpread,
        init_cap: None,
        shards: None,
        wlock_sp: false,
    };
    let mut ops: Vec<OpRec> = Vec::new();
    let mut next_vid = 1u32;
    let sync_every = kind == Kind::Sync && rng.chance(1, 2);
    // fill at least half of the capacity (keys outside the crafted range)
    let fill = rng.range(cap / 2 + 1, cap) as u16;
    for i in 0..fill {
        ops.push(OpRec::plain(Op::Insert { k: 2000 + i, vid: next_vid, w: 1 }));
        next_vid += 1;
        if kind == Kind::Sync && (sync_every || rng.chance(1, 20)) {
            ops.push(OpRec::plain(Op::Sync));
        }
    }
    if kind == Kind::Sync {
        ops.push(OpRec::plain(Op::Sync));
    }
    // lookups: `once` crafted keys once each, then pairs, shuffled a little
    let once = rng.range(300, crate::types::SPREAD_KEYS as u64) as u16;
    let mut gets: Vec<u16> = (0..once).collect();
    let need = (10 * cap) as usize + rng.range(0, 400) as usize;
    let mut k2 = 3000u16;
    while gets.len() < need {
        // an even number of lookups of a key leaves every parity as it was
        let k = if rng.chance(1, 3) { rng.below(once as u64) as u16 } else { k2 };
        k2 += 1;
        gets.push(k);
        gets.push(k);
    }
    // local shuffling (swaps at short distance keep most "once" lookups first)
    for i in 0..gets.len() {
        if rng.chance(1, 4) {
            let j = (i + rng.below(8) as usize).min(gets.len() - 1);
            gets.swap(i, j);
        }
    }
    for (n, k) in gets.iter().enumerate() {
        ops.push(OpRec::plain(Op::Get { k: *k }));
        if kind == Kind::Sync && (sync_every || n % 50 == 49) {
            ops.push(OpRec::plain(Op::Sync));
        }
        if rng.chance(1, 40) {
            ops.push(OpRec::plain(Op::Insert { k: 2000 + rng.below(300) as u16, vid: next_vid, w: 1 }));
            next_vid += 1;
        }
    }
    if kind == Kind::Sync {
        ops.push(OpRec::plain(Op::Sync));
        ops.push(OpRec::plain(Op::Sync));
    }
    // the cache still works afterwards
    for _ in 0..rng.range(5, 40) {
        let k = 2000 + rng.below(400) as u16;
        ops.push(OpRec::plain(Op::Get { k }));
        ops.push(OpRec::plain(Op::Insert { k, vid: next_vid, w: 1 }));
        next_vid += 1;
    }
    if kind == Kind::Sync {
        ops.push(OpRec::plain(Op::Sync));
    }
    Trace {
        engine: Engine::Seq,
        config: cfg,
        threads: vec![ops],
        extra: Vec::new(),
        schedule: Vec::new(),
        sched: None,
        prologue: Vec::new(),
        callback_faults: CallbackFaults::default(),
        origin: Some(Origin { seed, run, population: pop.name().to_string() }),
    }
}
