//! Engines `thr` and `burst`: 1..4 real threads share clones of one `sync::Cache`; the
//! baton scheduler (sched.rs) decides every interleaving at switch-point granularity.

use std::collections::{BTreeMap, BTreeSet};
use std::panic::{catch_unwind, AssertUnwindSafe};
use std::sync::{Arc, Mutex};
use std::time::Duration;

use mini_moka::verif::VerifClock;

use crate::gen::{gen_config, Pop, MS, SEC};
use crate::hooks::{Shared, SimHooks};
use crate::lin::{check_key_exp, Expiry, LinEvent, LinOp};
use crate::ops::{CallbackFaults, Config, Engine, Faults, Kind, Op, OpRec, Origin, SchedSpec, Trace};
use crate::prng::{mix, Fnv, Prng};
use crate::report::RunReport;
use crate::sched::{Policy, Sched, SchedAbort, SchedConfig};
use crate::seq::payload_str;
use crate::sut::{build_sync, sync_snapshot, SyncCache};
use crate::types::{Registry, HashMode, INJECTED_PANIC, K, V};

#[derive(Clone, Debug)]
pub enum Res {
    Unit,
    Got(Option<u32>),
    Has(bool),
    Items(Vec<(u16, u32)>),
    /// one stepped-iterator yield
    Yield(Option<(u16, u32)>),
    Panicked(String),
    Skipped,
}

#[derive(Clone, Debug)]
pub struct Rec {
    pub tid: usize,
    pub idx: usize,
    pub op: Op,
    pub invoke: u64,
    pub ret: u64,
    pub clock_lo: u64,
    pub clock_hi: u64,
    pub res: Res,
    pub read_dropped: bool,
    /// resident count observed right after the op (burst overshoot bound), if measured
    pub resident_after: Option<usize>,
    /// write records the maintenance pass in progress (if any) had applied at that moment
    pub pass_applied_after: usize,
    /// `entry_count()` (what the last completed pass published) at that moment
    pub entry_count_after: u64,
}

struct ThreadCtx {
    tid: usize,
    prog: Vec<OpRec>,
    cache: Option<SyncCache>,
    reg: Arc<Registry>,
    clock: VerifClock,
    base: std::time::Instant,
    sched: Arc<Sched>,
    hooks: Arc<SimHooks>,
    out: Arc<Mutex<Vec<Rec>>>,
    measure_residents: bool,
}

thread_local! {
    static HASH_MODE: std::cell::Cell<HashMode> = const { std::cell::Cell::new(HashMode::Fixed) };
}

fn now_ns(clock: &VerifClock, base: std::time::Instant) -> u64 {
    clock.now().saturating_duration_since(base).as_nanos() as u64
}

type IterBox = Box<dyn Iterator<Item = (u16, u32)>>;

fn thread_main(mut ctx: ThreadCtx) {
    mini_moka::verif::install(Some(ctx.hooks.clone() as Arc<dyn mini_moka::verif::Hooks>));
    let tid = ctx.tid;
    let sched = Arc::clone(&ctx.sched);
    crate::sut::reset_variants();
    let r = catch_unwind(AssertUnwindSafe(|| {
        sched.thread_start(tid);
        // A stepped iterator borrows the thread's own cache clone; it is always dropped
        // before that clone (IterEnd, DropHandle, or the end of this closure).
        let mut iter: Option<IterBox> = None;
        let mut iter_seen: Vec<(u16, u32)> = Vec::new();
        for (idx, rec) in ctx.prog.clone().iter().enumerate() {
            let op = &rec.op;
            sched.switch_point(tid, "op");
            ctx.hooks.begin_op(rec.f);
            let invoke = sched.steps() as u64;
            let clock_lo = now_ns(&ctx.clock, ctx.base);
            let res = if ctx.cache.is_none() {
                Ok(Res::Skipped)
            } else {
                let cache_ref: &SyncCache = ctx.cache.as_ref().unwrap();
                // SAFETY: see above; the iterator never outlives `ctx.cache`.
                let cache_static: &'static SyncCache = unsafe { &*(cache_ref as *const SyncCache) };
                crate::types::set_in_op(true);
                catch_unwind(AssertUnwindSafe(|| match op {
                    Op::Insert { k, vid, w } => {
                        cache_ref.insert(K::tracked(*k, &ctx.reg), V::new(*vid, *w, &ctx.reg));
                        Res::Unit
                    }
                    Op::Get { k } => Res::Got(crate::sut::sync_get(cache_ref, &K::probe(*k))),
                    Op::Contains { k } => Res::Has(cache_ref.contains_key(&K::probe(*k))),
                    Op::Iter => {
                        let mut v: Vec<(u16, u32)> = crate::sut::sync_iter(cache_ref);
                        v.sort();
                        Res::Items(v)
                    }
                    Op::Invalidate { k } => {
                        cache_ref.invalidate(&K::probe(*k));
                        Res::Unit
                    }
                    Op::InvalidateAll => {
                        cache_ref.invalidate_all();
                        Res::Unit
                    }
                    Op::Sync => {
                        mini_moka::sync::ConcurrentCacheExt::sync(cache_ref);
                        Res::Unit
                    }
                    Op::Advance { ns } => {
                        ctx.clock.advance(Duration::from_nanos(*ns));
                        Res::Unit
                    }
                    Op::IterBegin => {
                        iter_seen.clear();
                        iter = Some(Box::new(
                            cache_static.iter().map(|e| (e.key().k, e.value().id)),
                        ));
                        Res::Unit
                    }
                    Op::IterNext => match iter.as_mut() {
                        Some(it) => {
                            let y = it.next();
                            if let Some(p) = y {
                                iter_seen.push(p);
                            } else {
                                iter = None;
                            }
                            Res::Yield(y)
                        }
                        None => Res::Skipped,
                    },
                    Op::IterEnd => {
                        // drain what is left in one step, then release the shard lock
                        let mut rest = Vec::new();
                        if let Some(it) = iter.as_mut() {
                            for p in it {
                                rest.push(p);
                            }
                        }
                        iter = None;
                        Res::Items(rest)
                    }
                    Op::DropHandle => Res::Unit,
                    Op::InvalidateIf { .. } | Op::IterSteps { .. } => Res::Skipped,
                }))
            };
            crate::types::set_in_op(false);
            if *op == Op::DropHandle {
                iter = None;
                ctx.cache = None;
            }
            let st = ctx.hooks.end_op();
            let ret = sched.steps() as u64;
            let clock_hi = now_ns(&ctx.clock, ctx.base);
            let res = match res {
                Ok(r) => r,
                Err(p) => {
                    if p.downcast_ref::<SchedAbort>().is_some() {
                        std::panic::resume_unwind(p);
                    }
                    Res::Panicked(payload_str(&p))
                }
            };
            let resident_after = if ctx.measure_residents && ctx.cache.is_some() && iter.is_none() {
                Some(ctx.cache.as_ref().unwrap().iter().count())
            } else {
                None
            };
            let stop = matches!(res, Res::Panicked(_));
            ctx.out.lock().unwrap().push(Rec {
                tid,
                idx,
                op: op.clone(),
                invoke,
                ret,
                clock_lo,
                clock_hi,
                res,
                read_dropped: st.read_dropped,
                resident_after,
                pass_applied_after: ctx.hooks.shared.pass_applied.load(std::sync::atomic::Ordering::SeqCst),
                entry_count_after: if resident_after.is_some() { ctx.cache.as_ref().map(|c| c.entry_count()).unwrap_or(0) } else { 0 },
            });
            if stop {
                break;
            }
        }
        drop(iter);
    }));
    // drop this thread's handle (the last one may go with records still queued)
    let _ = catch_unwind(AssertUnwindSafe(|| drop(ctx.cache.take())));
    let _ = r;
    mini_moka::verif::install(None);
    sched.finish(tid);
}

fn policy_of(spec: &SchedSpec) -> Policy {
    match spec.policy.as_str() {
        "sticky" => Policy::Sticky,
        "pct" => Policy::Pct {
            change_points: spec.change_points.clone(),
        },
        _ => Policy::Random,
    }
}

/// Runs one thr/burst trace. Returns the report and the schedule that was actually taken.
pub fn run_thr(trace: &Trace) -> (RunReport, Vec<u8>) {
    let cfg = &trace.config;
    HASH_MODE.with(|m| m.set(cfg.hasher));
    let n = trace.threads.len();
    let mut rep = RunReport::default();
    let reg = Registry::new();
    let clock = VerifClock::new();
    let base = clock.now();
    let shared = Arc::new(Shared::default());
    shared.wlock_sp.store(cfg.wlock_sp, std::sync::atomic::Ordering::SeqCst);
    let main_hooks = SimHooks::new(usize::MAX, Arc::clone(&shared), None);
    mini_moka::verif::install(Some(main_hooks.clone() as Arc<dyn mini_moka::verif::Hooks>));
    let cache = build_sync(cfg, &reg, &clock);
    let total_ops: usize = trace.threads.iter().map(|t| t.len()).sum();
    // caller-callback panics (separate population): V::clone / the weigher panic on command
    if let Some(n) = trace.callback_faults.clone_panic_at {
        reg.arm_clone_panic(n as i64);
    }
    if let Some(n) = trace.callback_faults.weigh_panic_at {
        reg.arm_weigh_panic(n as i64);
    }
    crate::types::arm_key_panics(
        trace.callback_faults.hash_panic_at.map(|n| n as i64).unwrap_or(-1),
        trace.callback_faults.eq_panic_at.map(|n| n as i64).unwrap_or(-1),
    );

    // prologue (main thread, no scheduler)
    let mut vid_written: BTreeMap<u32, (u16, u32)> = BTreeMap::new(); // vid -> (key, raw weight)
    let mut prologue_writes: Vec<(u16, u32, u32)> = Vec::new();
    for rec in &trace.prologue {
        match &rec.op {
            Op::Insert { k, vid, w } => {
                cache.insert(K::tracked(*k, &reg), V::new(*vid, *w, &reg));
                vid_written.insert(*vid, (*k, *w));
                prologue_writes.push((*k, *vid, *w));
            }
            // warm-up reads (popularity, recency) and maintenance placements
            Op::Get { k } => {
                let _ = cache.get(&K::probe(*k));
            }
            Op::Sync => mini_moka::sync::ConcurrentCacheExt::sync(&cache),
            _ => {}
        }
    }
    if !trace.prologue.is_empty() {
        mini_moka::sync::ConcurrentCacheExt::sync(&cache);
    }

    let spec = trace.sched.clone().unwrap_or(SchedSpec {
        policy: "replay".into(),
        seed: 0,
        change_points: vec![],
        fair_after: usize::MAX,
        starve: None,
        starve_in_sync: false,
        starve_stutter: None,
        budget: 20_000.max(200 * total_ops),
    });
    let policy = if !trace.schedule.is_empty() || trace.sched.is_none() {
        Policy::Replay
    } else {
        policy_of(&spec)
    };
    let sched = Arc::new(Sched::new(SchedConfig {
        n,
        policy,
        seed: spec.seed,
        explicit: trace.schedule.clone(),
        budget: spec.budget,
        fair_after: spec.fair_after,
        starve: if trace.schedule.is_empty() { spec.starve } else { None },
        starve_in_sync: spec.starve_in_sync,
        starve_stutter: spec.starve_stutter,
    }));
    let out: Arc<Mutex<Vec<Rec>>> = Arc::new(Mutex::new(Vec::new()));
    let burst = trace.engine == Engine::Burst;
    let mut handles = Vec::new();
    for (tid, prog) in trace.threads.iter().enumerate() {
        let ctx = ThreadCtx {
            tid,
            prog: prog.clone(),
            cache: Some(cache.clone()),
            reg: Arc::clone(&reg),
            clock: clock.clone(),
            base,
            sched: Arc::clone(&sched),
            hooks: SimHooks::new(tid, Arc::clone(&shared), Some(Arc::clone(&sched))),
            out: Arc::clone(&out),
            measure_residents: burst && cfg.cap.is_some() && !cfg.has_expiry(),
        };
        handles.push(
            std::thread::Builder::new()
                .name(format!("sim-{}", tid))
                .stack_size(512 * 1024)
                .spawn(move || thread_main(ctx))
                .expect("spawn"),
        );
    }
    sched.start();
    sched.wait_done();
    for h in handles {
        let _ = h.join();
    }
    // the harness's own calls below must not trip a still-armed callback fault
    reg.arm_clone_panic(-1);
    reg.arm_weigh_panic(-1);
    let key_panics = crate::types::key_panics_injected();
    crate::types::arm_key_panics(-1, -1);
    let srep = sched.report();
    rep.steps = srep.steps as u64;
    rep.ops = total_ops as u64;
    rep.trace_hash = srep.trace_hash;
    rep.pairs = srep.pairs.iter().map(|(a, b)| format!("{}>{}", a, b)).collect();
    rep.flag("preemptions", srep.preemptions as u64);
    rep.flag("parked_in_sync_steps", srep.parked_in_sync_steps as u64);
    rep.flag("map_blocks", srep.map_blocks as u64);
    rep.flag("lock_blocks", srep.lock_blocks as u64);
    rep.fault("stalled_thread_steps", srep.starved_steps as u64);
    let mut hist: Vec<Rec> = out.lock().unwrap().clone();
    hist.sort_by_key(|r| (r.invoke, r.tid, r.idx));
    rep.fault_injecting = trace.threads.iter().flatten().any(|o| o.f.any())
        || spec.starve.is_some()
        || trace.callback_faults != CallbackFaults::default();
    rep.fault("callback_panic", reg.injected() as u64 + key_panics as u64);
    if reg.injected() + key_panics > 0 {
        rep.flag("relaxed_after_callback_panic", 1);
    }

    if let Some(kind) = srep.abort_kind {
        let rule = if kind == "deadlock" { "C09.deadlock" } else { "C09.livelock" };
        rep.viol(rule, srep.abort.clone().unwrap_or_default(), srep.steps, None);
        // the cache may be in the middle of an operation: no further checks
        finish_flags(&mut rep, &shared, &hist, &srep.schedule);
        std::mem::forget(cache); // threads unwound inside the library; do not touch it again
        mini_moka::verif::install(None);
        return (rep, srep.schedule);
    }

    // ---- panics inside operations --------------------------------------------------------
    let mut injected = false;
    // a callback that panics inside a maintenance run poisons the deques lock for every
    // thread, also for operations that were invoked before the panicking one
    let injected_any = hist.iter().any(|r| matches!(&r.res, Res::Panicked(m) if m.contains(INJECTED_PANIC)));
    for r in &hist {
        if let Res::Panicked(msg) = &r.res {
            if msg.contains(INJECTED_PANIC) {
                injected = true;
            } else if injected || (injected_any && msg.contains("lock poisoned")) {
                // attributed to the caller's own panicking callback
            } else {
                rep.viol(
                    "C08.internal-panic",
                    format!("T{} {} panicked: {}", r.tid, r.op.name(), msg),
                    r.invoke as usize,
                    r.op.key(),
                );
                if msg.contains("assertion `left == right` failed") {
                    rep.viol(
                        "C10.counters-changed-under-maintenance",
                        format!("T{} {}: {}", r.tid, r.op.name(), msg.replace('\n', " ")),
                        r.invoke as usize,
                        r.op.key(),
                    );
                }
            }
        }
    }

    // A value callback (weigher / `V::clone`) only runs on the caller's side of an insert or a
    // get -- before the map is touched, or inside the map closure -- never inside maintenance:
    // after such a panic the cache is fully usable and every check stays on; only the keys of
    // the panicked operations are left out of the per-key history check. Key callbacks
    // (`K::hash` / `K::eq` also run inside maintenance and map operations) and anything that
    // panicked afterwards keep the checks off.
    let mut tainted_keys: BTreeSet<u16> = BTreeSet::new();
    if injected
        && key_panics == 0
        && !hist.iter().any(|r| matches!(&r.res, Res::Panicked(m) if !m.contains(INJECTED_PANIC)))
    {
        for r in &hist {
            if matches!(&r.res, Res::Panicked(_)) {
                if let Some(k) = r.op.key() {
                    tainted_keys.insert(k);
                }
            }
        }
        injected = false;
        rep.flag("panicked_insert_judged", 1);
    }

    // ---- bounded liveness (C09) ----------------------------------------------------------
    let horizon = spec.fair_after.min(srep.steps) as u64;
    let bound = 64 * (total_ops as u64 + 384) + 1000;
    for r in &hist {
        let start = r.invoke.max(horizon);
        if r.ret > start && r.ret - start > bound {
            rep.viol(
                "C09.slow-after-faults-stopped",
                format!(
                    "T{} {} needed {} steps after the fault horizon (bound {})",
                    r.tid,
                    r.op.name(),
                    r.ret - start,
                    bound
                ),
                r.invoke as usize,
                r.op.key(),
            );
        }
    }

    // ---- burst: overshoot bound between maintenance runs (C04) -----------------------------
    if let Some(cap) = cfg.cap {
        let inserting = trace
            .threads
            .iter()
            .filter(|t| t.iter().any(|o| matches!(o.op, Op::Insert { .. })))
            .count() as u64;
        // The property bounds the state between maintenance runs. A pass that is in progress
        // (parked or slow) holds at most one record that it has taken off the queue and not yet
        // applied (+ 1), and every record it has applied so far may have been admitted without
        // an eviction yet (victims in flux; the size-based eviction at the end of the pass
        // restores the bound): + the number of records applied so far in that pass.
        let limit0 = cap + 384 + inserting + 1;
        for r in &hist {
            if let Some(cnt) = r.resident_after {
                let limit = limit0 + r.pass_applied_after as u64;
                // what the policy itself holds beyond the capacity, as published by the last
                // completed pass: an excess that is explained by it is a different matter (the
                // policy admitted without evicting) than one sitting in front of the policy
                let admitted_over = r.entry_count_after.saturating_sub(cap);
                if !cfg.weigher && cnt as u64 > limit && admitted_over >= cnt as u64 - limit {
                    rep.viol(
                        "C04.overshoot-admitted",
                        format!(
                            "{} entries resident after T{} {}: the bound {} (max_capacity {} + write queue 384 + {} inserting threads + 1) is exceeded, and the last completed maintenance pass left {} entries admitted, {} more than max_capacity",
                            cnt, r.tid, r.op.name(), limit, cap, inserting, r.entry_count_after, admitted_over
                        ),
                        r.invoke as usize,
                        None,
                    );
                    break;
                }
                if !cfg.weigher && cnt as u64 > limit {
                    rep.viol(
                        "C04.overshoot-bound",
                        format!(
                            "{} entries resident after T{} {} (max_capacity {} + write queue 384 + {} inserting threads + 1 record in the hands of a running pass + records that pass has applied so far = {})",
                            cnt, r.tid, r.op.name(), cap, inserting, limit
                        ),
                        r.invoke as usize,
                        None,
                    );
                    break;
                }
            }
        }
    }

    // ---- quiescence ----------------------------------------------------------------------
    let q = catch_unwind(AssertUnwindSafe(|| {
        mini_moka::sync::ConcurrentCacheExt::sync(&cache);
        mini_moka::sync::ConcurrentCacheExt::sync(&cache);
        sync_snapshot(&cache, base, cfg.weigher)
    }));
    let snap = match q {
        Ok(s) => s,
        Err(p) => {
            if !injected {
                rep.viol(
                    "C08.internal-panic",
                    format!("sync() after the threads stopped panicked: {}", payload_str(&p)),
                    srep.steps,
                    None,
                );
            }
            finish_flags(&mut rep, &shared, &hist, &srep.schedule);
            std::mem::forget(cache);
            mini_moka::verif::install(None);
            return (rep, srep.schedule);
        }
    };
    let now = now_ns(&clock, base);
    for r in &hist {
        if let Op::Insert { k, vid, w } = &r.op {
            vid_written.insert(*vid, (*k, *w));
        }
    }
    let mut shash = Fnv::default();
    crate::seq::hash_snap(&mut shash, &snap);

    if !injected {
        let queues_empty = snap.read_queue_len == 0 && snap.write_queue_len == 0;
        for e in &snap.errors {
            rep.viol("C08.walker", format!("after quiescence: {}", e), srep.steps, None);
        }
        if queues_empty {
            for e in &snap.strict_errors {
                rep.viol("C08.walker-strict", format!("after quiescence: {}", e), srep.steps, None);
            }
        }
        let phys_n = snap.entries.len() as u64;
        let phys_w: u64 = snap.entries.iter().map(|e| e.weight as u64).sum();
        if queues_empty {
            rep.flag("c10_checks", 1);
            if hist.iter().any(|r| matches!(r.op, Op::Invalidate { .. } | Op::InvalidateAll)) || cfg.has_expiry() || cfg.cap.is_some() {
                rep.flag("c10_checks_after_removal", 1);
            }
            if snap.entry_count != phys_n {
                rep.viol(
                    "C10.entry-count",
                    format!("after quiescence: entry_count()={} but {} entries are resident", snap.entry_count, phys_n),
                    srep.steps,
                    None,
                );
            }
            if snap.weighted_size != phys_w {
                rep.viol(
                    "C10.weighted-size",
                    format!("after quiescence: weighted_size()={} but the resident weights sum to {}", snap.weighted_size, phys_w),
                    srep.steps,
                    None,
                );
            }
            if let Some(cap) = cfg.cap {
                if phys_w >= cap {
                    rep.flag("c04_at_capacity", 1);
                }
                if phys_w > cap {
                    rep.viol(
                        "C04.over-capacity",
                        format!("after quiescence: resident weight {} > max_capacity {}", phys_w, cap),
                        srep.steps,
                        None,
                    );
                }
            }
            // C12 (applied order): deque order = order of the last applied uses
            {
                let (n, bad) = crate::hooks::check_applied_order(&shared, &snap);
                if n > 0 {
                    rep.flag("c12_applied_order_pairs", n);
                }
                if let Some(msg) = bad {
                    rep.viol("C12.applied-order", format!("after quiescence: {}", msg), srep.steps, None);
                }
            }
            // C11: live objects (the harness holds none at this point)
            let (lk, lv) = (reg.live_keys(), reg.live_vals());
            rep.flag("c11_quiescent_checks", 1);
            if lv != phys_n as i64 {
                rep.viol(
                    "C11.live-values",
                    format!("after quiescence: {} value objects alive, {} entries resident", lv, phys_n),
                    srep.steps,
                    None,
                );
            }
            if lk != phys_n as i64 {
                rep.viol(
                    "C11.live-keys",
                    format!("after quiescence: {} key objects alive, {} entries resident", lk, phys_n),
                    srep.steps,
                    None,
                );
            }
        }

        // timestamps of the residents (hook H5): the write time kept for a value lies within the
        // interval of clock readings of the insert that wrote it; the access time between that
        // insert's first reading and the last reading of any hit that returned the value
        if cfg.has_expiry() {
            for e in &snap.entries {
                let vid = e.value as u32;
                let (lo, hi) = match hist.iter().find(|r| matches!(&r.op, Op::Insert { vid: v, .. } if *v == vid) && matches!(r.res, Res::Unit)) {
                    Some(w) => (w.clock_lo, w.clock_hi),
                    None if prologue_writes.iter().any(|p| p.1 == vid) => (0, 0),
                    None => continue,
                };
                rep.flag("timestamp_checks", 1);
                if let (Some(_), Some(lm)) = (cfg.ttl, e.last_modified) {
                    if lm > hi {
                        rep.viol("C05.thr-write-time-late", format!("after quiescence: key {} value {} was written at a reading in [{}, {}] but the cache keeps {} as its write time", e.key, vid, lo, hi, lm), srep.steps, Some(e.key as u16));
                    } else if lm < lo {
                        rep.viol("C03.thr-write-time-early", format!("after quiescence: key {} value {} was written at a reading in [{}, {}] but the cache keeps {} as its write time (it expires early)", e.key, vid, lo, hi, lm), srep.steps, Some(e.key as u16));
                    }
                }
                if let (Some(_), Some(la)) = (cfg.tti, e.last_accessed) {
                    let mut upper = hi;
                    for g in &hist {
                        if let (Op::Get { .. }, Res::Got(Some(v))) = (&g.op, &g.res) {
                            if *v == vid {
                                upper = upper.max(g.clock_hi);
                            }
                        }
                    }
                    if la > upper {
                        rep.viol("C06.thr-access-time-late", format!("after quiescence: key {} value {}: last possible access at reading {} but the cache keeps {} as its access time", e.key, vid, upper, la), srep.steps, Some(e.key as u16));
                    } else if la < lo {
                        rep.viol("C03.thr-access-time-early", format!("after quiescence: key {} value {} was written at a reading >= {} but the cache keeps {} as its access time (it expires early)", e.key, vid, lo, la), srep.steps, Some(e.key as u16));
                    }
                }
            }
        }

        // final state: every resident value must have been written to that key
        for e in &snap.entries {
            match vid_written.get(&(e.value as u32)) {
                Some((k, _)) if *k as u64 == e.key => {}
                _ => rep.viol(
                    "C02.final-phantom",
                    format!("after all threads stopped key {} holds value {} which nobody wrote to it", e.key, e.value),
                    srep.steps,
                    Some(e.key as u16),
                ),
            }
        }

        judge_history(trace, &hist, &prologue_writes, &cache, now, srep.steps as u64, &tainted_keys, &mut rep);

        // ---- C03 refill (Q6) ---------------------------------------------------------------
        if let (Some(cap), true) = (cfg.cap, queues_empty) {
            let zombies = snap_has_dead_behind_live(cfg, &snap, now);
            if zombies {
                *shared.probes.lock().unwrap().entry("cause.dead_behind_live").or_insert(0) += 1;
            }
            if cap <= 24 && phys_w <= cap {
                let room = cap - phys_w;
                // live residents = physically resident and visible to a (side-effect free) lookup
                let before: BTreeSet<(u64, u64)> = snap
                    .entries
                    .iter()
                    .filter(|e| !entry_dead(cfg, e, now, None) && cache.contains_key(&K::probe(e.key as u16)))
                    .map(|e| (e.key, e.value))
                    .collect();
                let mut ok = true;
                let r = catch_unwind(AssertUnwindSafe(|| {
                    for i in 0..room {
                        let k = 1000 + i as u16;
                        cache.insert(K::tracked(k, &reg), V::new(900_000 + i as u32, 1, &reg));
                        mini_moka::sync::ConcurrentCacheExt::sync(&cache);
                    }
                    sync_snapshot(&cache, base, cfg.weigher)
                }));
                if let Ok(after) = r {
                    rep.flag("c03_refill_checked", 1);
                    let ttl_zero = cfg.ttl == Some(0) || cfg.tti == Some(0);
                    if !ttl_zero {
                        for i in 0..room {
                            let k = 1000 + i;
                            if !after.entries.iter().any(|e| e.key == k) {
                                ok = false;
                                rep.viol(
                                    "C03.refill-refused",
                                    format!(
                                        "after quiescence {} of {} capacity units were free, but fresh unit-weight key #{} was not retained",
                                        room, cap, i
                                    ),
                                    srep.steps,
                                    Some(k as u16),
                                );
                                break;
                            }
                        }
                        if ok {
                            for (k, v) in &before {
                                if !after.entries.iter().any(|e| e.key == *k && e.value == *v) {
                                    rep.viol(
                                        "C03.refill-evicted",
                                        format!("refilling the free capacity removed live resident {} (value {})", k, v),
                                        srep.steps,
                                        Some(*k as u16),
                                    );
                                    break;
                                }
                            }
                        }
                    }
                }
            }
        }
        // burst: maintenance still runs (the flag was released on every path)
        {
            // 450 more un-synced inserts from this thread: they only complete if the
            // housekeeper path still runs maintenance when the write queue fills
            let r = catch_unwind(AssertUnwindSafe(|| {
                main_hooks.begin_op(Faults::default());
                for i in 0..450u32 {
                    cache.insert(K::tracked(2000 + (i % 8) as u16, &reg), V::new(950_000 + i, 1, &reg));
                }
            }));
            match r {
                Ok(()) => rep.flag("c09_maintenance_alive_checked", 1),
                Err(p) => {
                    let msg = payload_str(&p);
                    if msg.contains(crate::hooks::RETRY_LIVELOCK) {
                        rep.viol(
                            "C09.maintenance-stalled",
                            "after the threads stopped, 450 further un-synced inserts could not complete: the write queue is full and maintenance no longer runs (the maintenance flag was not released, or the flush trigger no longer fires)".into(),
                            srep.steps,
                            None,
                        );
                        finish_flags(&mut rep, &shared, &hist, &srep.schedule);
                        std::mem::forget(cache);
                        mini_moka::verif::install(None);
                        return (rep, srep.schedule);
                    } else if !injected {
                        rep.viol("C08.internal-panic", format!("insert after the run panicked: {}", msg), srep.steps, None);
                    }
                }
            }
        }
    }

    // ---- drop accounting (C11) -------------------------------------------------------------
    let queued_at_drop = snap.read_queue_len + snap.write_queue_len;
    let dropped = catch_unwind(AssertUnwindSafe(move || drop(cache)));
    mini_moka::verif::install(None);
    if dropped.is_err() {
        if !injected {
            rep.viol("C08.internal-panic", "dropping the cache panicked".into(), srep.steps, None);
        }
    } else {
        let dd = reg.double_drops();
        if !dd.is_empty() {
            rep.viol("C11.double-drop", format!("{} objects dropped more than once", dd.len()), srep.steps, None);
            rep.viol("C08.double-free", format!("{} objects dropped more than once", dd.len()), srep.steps, None);
        }
        let leaked = reg.leaked();
        if !leaked.is_empty() {
            rep.viol(
                "C11.leak-at-drop",
                format!("{} of {} objects never dropped after the last handle was dropped", leaked.len(), reg.created()),
                srep.steps,
                None,
            );
        }
        if queued_at_drop > 0 || hist.iter().any(|r| r.op == Op::DropHandle) {
            rep.flag("c11_dropped_with_queue", 1);
        }
    }
    rep.state_hash = shash.0;
    rep.states = vec![shash.0];
    rep.sim_time_ns = now;
    finish_flags(&mut rep, &shared, &hist, &srep.schedule);
    (rep, srep.schedule)
}

fn finish_flags(rep: &mut RunReport, shared: &Arc<Shared>, hist: &[Rec], schedule: &[u8]) {
    {
        let mut keys: BTreeSet<u16> = BTreeSet::new();
        for r in hist {
            if let Some(k) = r.op.key() {
                keys.insert(k);
            }
        }
        for i in 0..32u16 {
            keys.insert(1000 + i);
        }
        // prologue keys (small universes) may be lost without appearing in any thread's ops
        for i in 0..16u16 {
            keys.insert(i);
        }
        let keys: Vec<u16> = keys.into_iter().collect();
        rep.keyed = crate::hooks::resolve_keyed(shared, HASH_MODE.with(|m| m.get()), &keys);
    }
    for (k, v) in shared.probes.lock().unwrap().iter() {
        rep.probes.insert(k.to_string(), *v);
    }
    for (k, v) in shared.faults_fired.lock().unwrap().iter() {
        rep.fault(k, *v);
    }
    if let Some(c) = rep.probes.get("write.channel_full").copied() {
        rep.flag("write_channel_full", c);
    }
    // overlap: two threads operated on one key with overlapping intervals
    let mut overlap = false;
    for a in hist {
        for b in hist {
            if a.tid < b.tid && a.op.key().is_some() && a.op.key() == b.op.key() && a.invoke <= b.ret && b.invoke <= a.ret {
                overlap = true;
            }
        }
    }
    rep.flag("c02_overlap", overlap as u64);
    // a preemption inside an operation: the schedule switched threads while an op was open
    let inside = hist.iter().any(|r| r.ret > r.invoke + 1) && schedule.windows(2).any(|w| w[0] != w[1]);
    rep.flag("preemptions_inside_op", inside as u64);
    let mut h = Fnv(rep.trace_hash);
    for s in schedule {
        h.u64(*s as u64);
    }
    rep.trace_hash = h.0;
}

fn entry_dead(cfg: &Config, e: &mini_moka::verif::SnapEntry, now: u64, _va: Option<u64>) -> bool {
    cfg.ttl
        .map(|d| e.last_modified.map(|t| now >= t.saturating_add(d)).unwrap_or(false))
        .unwrap_or(false)
        || cfg
            .tti
            .map(|d| e.last_accessed.map(|t| now >= t.saturating_add(d)).unwrap_or(false))
            .unwrap_or(false)
}

fn snap_has_dead_behind_live(cfg: &Config, snap: &mini_moka::verif::Snapshot, now: u64) -> bool {
    let by_key: BTreeMap<u64, &mini_moka::verif::SnapEntry> = snap.entries.iter().map(|e| (e.key, e)).collect();
    for deque in [&snap.probation, &snap.write_order] {
        let mut live_seen = false;
        for n in deque.iter() {
            if let Some(e) = by_key.get(&n.key) {
                if entry_dead(cfg, e, now, None) {
                    if live_seen {
                        return true;
                    }
                } else {
                    live_seen = true;
                }
            }
        }
    }
    false
}

/// Oracles over the recorded history: per-key linearizability (C02, C07, C16), per-thread
/// monotonicity (C02), expiry safety (C05/C06), stepped-iteration rules (C16).
fn judge_history(
    trace: &Trace,
    hist: &[Rec],
    prologue: &[(u16, u32, u32)],
    cache: &SyncCache,
    now: u64,
    end_step: u64,
    skip_keys: &BTreeSet<u16>,
    rep: &mut RunReport,
) {
    let cfg = &trace.config;
    // strict register: capacity-safe by construction and no expiry
    let total_weight: u64 = {
        let mut per_key: BTreeMap<u16, u64> = BTreeMap::new();
        for (k, _v, w) in prologue {
            let pw = if cfg.weigher { *w as u64 } else { 1 };
            let e = per_key.entry(*k).or_insert(0);
            *e = (*e).max(pw);
        }
        for r in hist {
            if let Op::Insert { k, w, .. } = &r.op {
                let pw = if cfg.weigher { *w as u64 } else { 1 };
                let e = per_key.entry(*k).or_insert(0);
                *e = (*e).max(pw);
            }
        }
        per_key.values().sum()
    };
    // strict register: capacity-safe by construction (the largest weights of all keys fit
    // together); with expiry a read may still miss a value that may have expired
    let strict = cfg.cap.map(|c| total_weight <= c).unwrap_or(true);
    let exp = Expiry { ttl: cfg.ttl, tti: cfg.tti };
    if strict {
        rep.flag("c02_strict_register", 1);
    }

    // keys
    let mut keys: BTreeSet<u16> = prologue.iter().map(|p| p.0).collect();
    for r in hist {
        if let Some(k) = r.op.key() {
            keys.insert(k);
        }
        match &r.res {
            Res::Items(v) => {
                for (k, _) in v {
                    keys.insert(*k);
                }
            }
            Res::Yield(Some((k, _))) => {
                keys.insert(*k);
            }
            _ => {}
        }
    }
    // final reads (after quiescence)
    let mut finals: BTreeMap<u16, Option<u32>> = BTreeMap::new();
    for k in &keys {
        let g = cache.get(&K::probe(*k)).map(|v| v.id);
        finals.insert(*k, g);
    }
    let _ = now;

    // iterations: Iter (atomic to the baton? no: it runs without switch points) and stepped
    // iterations (IterBegin..IterEnd) are turned into per-key read observations.
    struct IterObs {
        tid: usize,
        invoke: u64,
        ret: u64,
        items: Vec<(u16, u32)>,
        idx: usize,
        stepped: bool,
        writer_steps_between: bool,
        clock_hi: u64,
    }
    let mut iters: Vec<IterObs> = Vec::new();
    for r in hist {
        if let (Op::Iter, Res::Items(v)) = (&r.op, &r.res) {
            iters.push(IterObs {
                tid: r.tid,
                invoke: r.invoke,
                ret: r.ret,
                items: v.clone(),
                idx: r.idx,
                stepped: false,
                writer_steps_between: false,
                clock_hi: r.clock_hi,
            });
        }
    }
    for tid in 0..trace.threads.len() {
        let mine: Vec<&Rec> = hist.iter().filter(|r| r.tid == tid).collect();
        let mut cur: Option<IterObs> = None;
        let mut last_ret = 0u64;
        for r in mine {
            match (&r.op, &r.res) {
                (Op::IterBegin, Res::Unit) => {
                    cur = Some(IterObs {
                        tid,
                        invoke: r.invoke,
                        ret: r.ret,
                        items: vec![],
                        idx: r.idx,
                        stepped: true,
                        writer_steps_between: false,
                        clock_hi: r.clock_hi,
                    });
                    last_ret = r.ret;
                }
                (Op::IterNext, Res::Yield(y)) => {
                    if let Some(c) = cur.as_mut() {
                        if let Some(p) = y {
                            c.items.push(*p);
                        }
                        if hist.iter().any(|w| {
                            w.tid != tid && matches!(w.op, Op::Insert { .. }) && w.ret > last_ret && w.invoke < r.invoke
                        }) {
                            c.writer_steps_between = true;
                        }
                        c.ret = r.ret;
                        c.clock_hi = r.clock_hi;
                        last_ret = r.ret;
                    }
                }
                (Op::IterEnd, Res::Items(rest)) => {
                    if let Some(mut c) = cur.take() {
                        c.items.extend(rest.iter().copied());
                        c.ret = r.ret;
                        c.clock_hi = r.clock_hi;
                        iters.push(c);
                    }
                }
                _ => {}
            }
        }
    }
    for it in &iters {
        rep.flag("iterations", 1);
        if it.stepped && it.writer_steps_between {
            rep.flag("c16_iter_with_writer_step", 1);
        }
        let mut seen = BTreeSet::new();
        for (k, _) in &it.items {
            if !seen.insert(*k) {
                rep.viol(
                    "C16.duplicate",
                    format!("T{} iteration #{} yielded key {} twice: {:?}", it.tid, it.idx, k, it.items),
                    it.invoke as usize,
                    Some(*k),
                );
            }
        }
    }

    for k in &keys {
        if skip_keys.contains(k) {
            continue;
        }
        let mut evs: Vec<LinEvent> = Vec::new();
        for (pk, vid, _) in prologue {
            if pk == k {
                evs.push(LinEvent {
                    op: LinOp::Write { vid: *vid, clock: (0, 0) },
                    invoke: 0,
                    ret: 0,
                    tid: 99,
                    idx: 0,
                });
            }
        }
        for r in hist {
            let (inv, ret) = (r.invoke + 1, r.ret + 1);
            let mk = |op: LinOp| LinEvent { op, invoke: inv, ret, tid: r.tid, idx: r.idx };
            match (&r.op, &r.res) {
                (Op::Insert { k: kk, vid, .. }, Res::Unit) if kk == k => {
                    evs.push(mk(LinOp::Write { vid: *vid, clock: (r.clock_lo, r.clock_hi) }))
                }
                (Op::Invalidate { k: kk }, Res::Unit) if kk == k => evs.push(mk(LinOp::Remove)),
                (Op::InvalidateAll, Res::Unit) => evs.push(mk(LinOp::RemoveAll { clock: (r.clock_lo, r.clock_hi) })),
                (Op::Get { k: kk }, Res::Got(g)) if kk == k => {
                    evs.push(mk(LinOp::Read { got: *g, any_value: false, clock_hi: r.clock_hi }))
                }
                (Op::Contains { k: kk }, Res::Has(b)) if kk == k => {
                    evs.push(mk(LinOp::Read { got: None, any_value: *b, clock_hi: r.clock_hi }))
                }
                _ => {}
            }
        }
        for it in &iters {
            let got = it.items.iter().find(|(kk, _)| kk == k).map(|p| p.1);
            evs.push(LinEvent {
                op: LinOp::Read { got, any_value: false, clock_hi: it.clock_hi },
                invoke: it.invoke + 1,
                ret: it.ret + 1,
                tid: it.tid,
                idx: it.idx,
            });
        }
        // final read
        evs.push(LinEvent {
            op: LinOp::Read { got: finals[k], any_value: false, clock_hi: now },
            invoke: end_step + 10,
            ret: end_step + 11,
            tid: 98,
            idx: 0,
        });
        let has_inval = evs.iter().any(|e| matches!(e.op, LinOp::Remove | LinOp::RemoveAll { .. }));
        let has_iter = iters.iter().any(|it| it.items.iter().any(|(kk, _)| kk == k));
        if evs.len() > 28 {
            continue;
        }
        if let Err(desc) = check_key_exp(&evs, strict, exp) {
            // classify: a non-strict failure is a safety failure (stale / phantom value);
            // a failure only under the strict register is a spurious loss
            let safety = check_key_exp(&evs, false, exp).is_err();
            if safety {
                rep.viol(
                    "C02.not-linearizable",
                    format!("key {}: no linearization of {}", k, desc),
                    end_step as usize,
                    Some(*k),
                );
                if has_inval {
                    rep.viol(
                        "C07.thr-not-linearizable",
                        format!("key {}: history with invalidations has no linearization: {}", k, desc),
                        end_step as usize,
                        Some(*k),
                    );
                }
                if has_iter {
                    rep.viol(
                        "C16.thr-not-linearizable",
                        format!("key {}: an iteration yielded a value that was not current during it: {}", k, desc),
                        end_step as usize,
                        Some(*k),
                    );
                }
            } else {
                rep.viol(
                    "C03.thr-spurious-nothing",
                    format!(
                        "key {}: capacity-safe configuration, yet a lookup observed nothing where every linearization has a value that cannot have expired: {}",
                        k, desc
                    ),
                    end_step as usize,
                    Some(*k),
                );
                if has_inval {
                    rep.viol(
                        "C07.thr-lost-after-invalidation",
                        format!(
                            "key {}: a value written after (or not targeted by) the invalidations in this history is missing although it cannot have expired and everything fits: {}",
                            k, desc
                        ),
                        end_step as usize,
                        Some(*k),
                    );
                }
                if has_iter {
                    rep.viol(
                        "C16.thr-missing",
                        format!("key {}: resident throughout an iteration but not yielded: {}", k, desc),
                        end_step as usize,
                        Some(*k),
                    );
                }
            }
        }

        // per-thread monotonicity w.r.t. each single writer's order
        let mut writer_of: BTreeMap<u32, (usize, usize)> = BTreeMap::new(); // vid -> (writer tid, idx)
        for r in hist {
            if let Op::Insert { k: kk, vid, .. } = &r.op {
                if kk == k {
                    writer_of.insert(*vid, (r.tid, r.idx));
                }
            }
        }
        for tid in 0..trace.threads.len() {
            let mut last: BTreeMap<usize, usize> = BTreeMap::new(); // writer -> last idx seen
            for r in hist.iter().filter(|r| r.tid == tid) {
                if let (Op::Get { k: kk }, Res::Got(Some(v))) = (&r.op, &r.res) {
                    if kk == k {
                        if let Some((w, widx)) = writer_of.get(v) {
                            if let Some(prev) = last.get(w) {
                                if widx < prev {
                                    rep.viol(
                                        "C02.went-backwards",
                                        format!("T{} observed key {} going backwards in T{}'s write order (value {} after a later one)", tid, k, w, v),
                                        r.invoke as usize,
                                        Some(*k),
                                    );
                                }
                            }
                            last.insert(*w, *widx);
                        }
                    }
                }
            }
        }

        // expiry safety in thr: certain violations only. Observations of a value: get hits,
        // pairs yielded by an iteration (a stepped yield is judged against the earliest
        // reading of its own next() call).
        if cfg.has_expiry() {
            // (tid, idx, invoke, earliest reading, value, what)
            let mut obs: Vec<(usize, usize, u64, u64, u32, &'static str)> = Vec::new();
            for r in hist {
                match (&r.op, &r.res) {
                    (Op::Get { k: kk }, Res::Got(Some(v))) if kk == k => obs.push((r.tid, r.idx, r.invoke, r.clock_lo, *v, "get")),
                    (Op::Iter, Res::Items(items)) | (Op::IterEnd, Res::Items(items)) => {
                        for (kk, v) in items {
                            if kk == k {
                                obs.push((r.tid, r.idx, r.invoke, r.clock_lo, *v, "iteration"));
                            }
                        }
                    }
                    (Op::IterNext, Res::Yield(Some((kk, v)))) if kk == k => {
                        obs.push((r.tid, r.idx, r.invoke, r.clock_lo, *v, "iteration"))
                    }
                    _ => {}
                }
            }
            for (otid, oidx, oinvoke, olo, v, what) in obs {
                // latest possible write reading of that value (prologue writes happen at 0)
                let w = hist.iter().find(|w| matches!(&w.op, Op::Insert { vid, .. } if *vid == v));
                let t_ins_max = w.map(|w| w.clock_hi).unwrap_or(0);
                if let Some(d) = cfg.ttl {
                    if olo >= t_ins_max.saturating_add(d) {
                        rep.viol(
                            "C05.thr-visible-after-ttl",
                            format!("T{} {}({}) returned value {} at reading >= {} although it was written at reading <= {} with ttl {}", otid, what, k, v, olo, t_ins_max, d),
                            oinvoke as usize,
                            Some(*k),
                        );
                        if what == "iteration" {
                            rep.viol(
                                "C16.thr-yielded-expired",
                                format!("T{} iteration yielded key {} value {} at reading >= {} although it was written at reading <= {} with ttl {}", otid, k, v, olo, t_ins_max, d),
                                oinvoke as usize,
                                Some(*k),
                            );
                        }
                    }
                }
                if let Some(d) = cfg.tti {
                    // latest possible access: the write, or any hit on this key invoked before this lookup
                    let mut a = t_ins_max;
                    for g in hist {
                        if let (Op::Get { k: kk }, Res::Got(Some(_))) = (&g.op, &g.res) {
                            if kk == k && g.invoke < oinvoke && !(g.tid == otid && g.idx == oidx) {
                                a = a.max(g.clock_hi);
                            }
                        }
                    }
                    if olo >= a.saturating_add(d) {
                        rep.viol(
                            "C06.thr-visible-after-tti",
                            format!("T{} {}({}) returned value {} at reading >= {} although its last possible access was at reading <= {} with tti {}", otid, what, k, v, olo, a, d),
                            oinvoke as usize,
                            Some(*k),
                        );
                        if what == "iteration" {
                            rep.viol(
                                "C16.thr-yielded-expired",
                                format!("T{} iteration yielded key {} value {} at reading >= {} although its last possible access was at reading <= {} with tti {}", otid, k, v, olo, a, d),
                                oinvoke as usize,
                                Some(*k),
                            );
                        }
                    }
                }
            }
            // contains_key == true: some value of the key must still be possibly alive
            for r in hist {
                if let (Op::Contains { k: kk }, Res::Has(true)) = (&r.op, &r.res) {
                    if kk != k {
                        continue;
                    }
                    // latest possible write / access reading among everything that may have taken effect
                    let mut t_w: Option<u64> = if prologue.iter().any(|p| p.0 == *k) { Some(0) } else { None };
                    let mut t_a: u64 = 0;
                    for w in hist {
                        if w.invoke >= r.ret {
                            continue;
                        }
                        match (&w.op, &w.res) {
                            (Op::Insert { k: wk, .. }, _) if wk == k => {
                                t_w = Some(t_w.unwrap_or(0).max(w.clock_hi));
                            }
                            (Op::Get { k: gk }, Res::Got(Some(_))) if gk == k => t_a = t_a.max(w.clock_hi),
                            _ => {}
                        }
                    }
                    if let Some(tw) = t_w {
                        if let Some(d) = cfg.ttl {
                            if r.clock_lo >= tw.saturating_add(d) {
                                rep.viol(
                                    "C05.thr-visible-after-ttl",
                                    format!("T{} contains_key({}) was true at reading >= {} although the key was last written at reading <= {} with ttl {}", r.tid, k, r.clock_lo, tw, d),
                                    r.invoke as usize,
                                    Some(*k),
                                );
                            }
                        }
                        if let Some(d) = cfg.tti {
                            let a = tw.max(t_a);
                            if r.clock_lo >= a.saturating_add(d) {
                                rep.viol(
                                    "C06.thr-visible-after-tti",
                                    format!("T{} contains_key({}) was true at reading >= {} although the key's last possible access was at reading <= {} with tti {}", r.tid, k, r.clock_lo, a, d),
                                    r.invoke as usize,
                                    Some(*k),
                                );
                            }
                        }
                    }
                }
            }
        }
    }
}

// ------------------------------------------------------------------------------------------
// engine `miri`: the same programs, baton off (run under `cargo miri`)
// ------------------------------------------------------------------------------------------

/// Runs the threads of a thr trace *freely* (no scheduler installed), then checks what
/// does not depend on a recorded schedule. Meant to be executed under Miri, whose own
/// seeded scheduler explores interleavings below switch-point granularity and reports
/// data races and undefined behaviour. Returns the violations found by the harness.
pub fn run_free(trace: &Trace) -> Vec<String> {
    let cfg = &trace.config;
    let reg = Registry::new();
    let clock = VerifClock::new();
    let base = clock.now();
    let cache = build_sync(cfg, &reg, &clock);
    let mut problems = Vec::new();
    let mut written: BTreeMap<u32, u16> = BTreeMap::new();
    for rec in &trace.prologue {
        match &rec.op {
            Op::Insert { k, vid, w } => {
                cache.insert(K::tracked(*k, &reg), V::new(*vid, *w, &reg));
                written.insert(*vid, *k);
            }
            Op::Get { k } => {
                let _ = cache.get(&K::probe(*k));
            }
            Op::Sync => mini_moka::sync::ConcurrentCacheExt::sync(&cache),
            _ => {}
        }
    }
    for t in &trace.threads {
        for r in t {
            if let Op::Insert { k, vid, .. } = &r.op {
                written.insert(*vid, *k);
            }
        }
    }
    let mut handles = Vec::new();
    for prog in trace.threads.iter() {
        let prog = prog.clone();
        let c = cache.clone();
        let reg = Arc::clone(&reg);
        let clock = clock.clone();
        handles.push(std::thread::spawn(move || {
            let mut seen: Vec<(u16, u32)> = Vec::new();
            for rec in &prog {
                match &rec.op {
                    Op::Insert { k, vid, w } => c.insert(K::tracked(*k, &reg), V::new(*vid, *w, &reg)),
                    Op::Get { k } => {
                        if let Some(v) = c.get(&K::probe(*k)) {
                            seen.push((*k, v.id));
                        }
                    }
                    Op::Contains { k } => {
                        let _ = c.contains_key(&K::probe(*k));
                    }
                    Op::Iter | Op::IterBegin => {
                        for e in c.iter() {
                            seen.push((e.key().k, e.value().id));
                        }
                    }
                    Op::Invalidate { k } => c.invalidate(&K::probe(*k)),
                    Op::InvalidateAll => c.invalidate_all(),
                    Op::Sync => mini_moka::sync::ConcurrentCacheExt::sync(&c),
                    Op::Advance { ns } => clock.advance(Duration::from_nanos(*ns)),
                    Op::DropHandle => break,
                    _ => {}
                }
            }
            seen
        }));
    }
    for h in handles {
        match h.join() {
            Ok(seen) => {
                for (k, v) in seen {
                    if written.get(&v) != Some(&k) {
                        problems.push(format!("a lookup of key {} returned value {} which nobody wrote to it", k, v));
                    }
                }
            }
            Err(p) => problems.push(format!("a thread panicked: {}", payload_str(&p))),
        }
    }
    mini_moka::sync::ConcurrentCacheExt::sync(&cache);
    mini_moka::sync::ConcurrentCacheExt::sync(&cache);
    let snap = sync_snapshot(&cache, base, cfg.weigher);
    for e in &snap.errors {
        problems.push(format!("walker: {}", e));
    }
    if snap.read_queue_len == 0 && snap.write_queue_len == 0 {
        let n = snap.entries.len() as u64;
        let w: u64 = snap.entries.iter().map(|e| e.weight as u64).sum();
        if snap.entry_count != n || snap.weighted_size != w {
            // counters may legitimately lag only through the recorded findings; report
            problems.push(format!(
                "counters ({}, {}) differ from the physical content ({}, {})",
                snap.entry_count, snap.weighted_size, n, w
            ));
        }
        if reg.live_vals() != n as i64 {
            problems.push(format!("{} value objects alive, {} entries resident", reg.live_vals(), n));
        }
    }
    for e in &snap.entries {
        if written.get(&(e.value as u32)).map(|k| *k as u64) != Some(e.key) {
            problems.push(format!("key {} holds value {} which nobody wrote to it", e.key, e.value));
        }
    }
    drop(cache);
    if !reg.double_drops().is_empty() {
        problems.push("objects dropped more than once".into());
    }
    if !reg.leaked().is_empty() {
        problems.push(format!("{} objects never dropped", reg.leaked().len()));
    }
    problems
}

/// Engine `miri`, single-threaded flavour: executes a seq history on the real cache with
/// only the end-of-run checks (no per-step oracles: they would make the interpreter crawl).
/// What Miri adds here is the aliasing / provenance / uninitialised-memory check of the
/// intrusive deques and tagged pointers along every history.
pub fn run_free_seq(trace: &Trace) -> Vec<String> {
    let cfg = &trace.config;
    let reg = Registry::new();
    let clock = VerifClock::new();
    let base = clock.now();
    let mut problems = Vec::new();
    let mut sut = crate::sut::Sut::build(cfg, &reg, &clock);
    for rec in &trace.threads[0] {
        let r = catch_unwind(AssertUnwindSafe(|| match &rec.op {
            Op::Insert { k, vid, w } => sut.insert(*k, *vid, *w, &reg),
            Op::Get { k } => {
                let _ = sut.get(*k);
            }
            Op::Contains { k } => {
                let _ = sut.contains(*k);
            }
            Op::Iter => {
                let _ = sut.iter();
            }
            Op::Invalidate { k } => sut.invalidate(*k),
            Op::InvalidateAll => sut.invalidate_all(),
            Op::InvalidateIf { p } => sut.invalidate_if(*p, &reg),
            Op::Sync => sut.sync(),
            Op::Advance { ns } => clock.advance(Duration::from_nanos(*ns)),
            _ => {}
        }));
        if let Err(p) = r {
            problems.push(format!("{} panicked: {}", rec.op.name(), payload_str(&p)));
            break;
        }
    }
    if problems.is_empty() {
        sut.sync();
        sut.sync();
        let snap = sut.snapshot(base, cfg.weigher);
        for e in &snap.errors {
            problems.push(format!("walker: {}", e));
        }
    }
    drop(sut);
    if !reg.double_drops().is_empty() {
        problems.push("objects dropped more than once".into());
    }
    if problems.is_empty() && !reg.leaked().is_empty() {
        problems.push(format!("{} objects never dropped", reg.leaked().len()));
    }
    problems
}

// ------------------------------------------------------------------------------------------
// generation
// ------------------------------------------------------------------------------------------

fn thr_stream(pop: &str) -> Option<u64> {
    Some(match pop {
        "thr-mixed" => 21,
        "thr-strict" => 22,
        "thr-iter" => 23,
        "burst" => 24,
        "thr-expiry" => 25,
        "thr-sweep" => 26,
        "thr-callback" => 27,
        "thr-warm" => 28,
        "thr-iter-mixed" => 29,
        "thr-inval" => 30,
        "thr-long" => 31,
        "thr-wlock" => 32,
        _ => return None,
    })
}

/// Systematic preemption sweep: one small two-thread program per 96 consecutive run
/// indices; the run index within the group enumerates who starts, after how many steps the
/// first preemption happens and how long the other thread then runs before control goes
/// back (explicit schedule prefix, round-robin afterwards). Seeded search over programs,
/// systematic over single and double preemption points of each.
fn generate_sweep(seed: u64, run: u64) -> Trace {
    const GROUP: u64 = 96;
    let stream = 26;
    let mut rng = Prng::new(mix(seed, stream, run / GROUP));
    let v = run % GROUP;
    let mut cfg = gen_config(&mut rng, Pop::SeqMixed);
    cfg.kind = Kind::Sync;
    cfg.ttl = None;
    cfg.tti = None;
    cfg.cap = *rng.pick(&[None, Some(1), Some(2), Some(8)]);
    let nkeys = rng.range(1, 2) as u16;
    let mut next_vid = 1u32;
    let mut threads = Vec::new();
    for _ in 0..2 {
        let len = rng.range(1, 3) as usize;
        let mut prog = Vec::new();
        for _ in 0..len {
            let op = match rng.weighted(&[6, 5, 1, 1, 3, 1, 2]) {
                0 => {
                    let vid = next_vid;
                    next_vid += 1;
                    Op::Insert { k: rng.below(nkeys as u64) as u16, vid, w: *rng.pick(&[0u32, 1, 1, 2]) }
                }
                1 => Op::Get { k: rng.below(nkeys as u64) as u16 },
                2 => Op::Contains { k: rng.below(nkeys as u64) as u16 },
                3 => Op::Iter,
                4 => Op::Invalidate { k: rng.below(nkeys as u64) as u16 },
                5 => Op::InvalidateAll,
                _ => Op::Sync,
            };
            prog.push(OpRec::plain(op));
        }
        threads.push(prog);
    }
    let first = (v % 2) as u8;
    let other = 1 - first;
    let p1 = ((v / 2) % 24) as usize;
    let p2 = match v / 48 {
        0 => 400usize, // the other thread runs to completion
        _ => 2 + ((v / 2) % 6) as usize * 3,
    };
    let mut schedule = vec![first; p1];
    schedule.extend(std::iter::repeat(other).take(p2));
    schedule.extend(std::iter::repeat(first).take(400));
    Trace {
        engine: Engine::Thr,
        config: cfg,
        threads,
        extra: Vec::new(),
        schedule,
        sched: None,
        prologue: Vec::new(),
        callback_faults: CallbackFaults::default(),
        origin: Some(Origin {
            seed,
            run,
            population: "thr-sweep".to_string(),
        }),
    }
}

pub fn generate(pop: &str, seed: u64, run: u64) -> Option<Trace> {
    let stream = thr_stream(pop)?;
    if pop == "thr-sweep" {
        return Some(generate_sweep(seed, run));
    }
    if pop == "thr-wlock" {
        // the programs, configurations and scheduling policies of the other populations,
        // with threads additionally preempted *inside* inserts, while the shard write lock
        // is held (Config::wlock_sp)
        let mut r = Prng::new(mix(seed, stream, run));
        let base = *r.pick(&["thr-mixed", "thr-mixed", "thr-warm", "thr-warm", "thr-expiry", "thr-inval", "thr-iter-mixed", "thr-long", "thr-strict"]);
        let mut t = generate(base, r.next_u64(), run)?;
        t.config.wlock_sp = true;
        // collisions put different keys into one shard: the lock of a key's shard is then
        // held while *another* key of that shard is looked up by maintenance
        if r.chance(1, 2) {
            t.config.shards = Some(2);
        }
        t.origin = Some(Origin { seed, run, population: pop.to_string() });
        return Some(t);
    }
    let sub = mix(seed, stream, run);
    let mut rng = Prng::new(sub);
    let mut cfg = gen_config(&mut rng, Pop::SeqMixed);
    cfg.kind = Kind::Sync;
    let mut next_vid = 1u32;
    let mut prologue = Vec::new();
    let mut threads: Vec<Vec<OpRec>> = Vec::new();
    let mut engine = Engine::Thr;
    let mut burst_stall = false;
    let mut long_stall = false;
    match pop {
        "thr-mixed" | "thr-strict" | "thr-expiry" | "thr-callback" => {
            let nthreads = rng.range(2, 4) as usize;
            let nkeys = rng.range(1, 3) as u16;
            cfg.cap = *rng.pick(&[None, Some(1), Some(2), Some(3), Some(4)]);
            if pop == "thr-strict" {
                cfg.ttl = None;
                cfg.tti = None;
                cfg.cap = *rng.pick(&[None, Some(8), Some(16)]);
            } else if pop == "thr-expiry" {
                let d = [1u64, SEC, 3 * SEC];
                match rng.below(3) {
                    0 => {
                        cfg.ttl = Some(*rng.pick(&d));
                        cfg.tti = None;
                    }
                    1 => {
                        cfg.tti = Some(*rng.pick(&d));
                        cfg.ttl = None;
                    }
                    _ => {
                        cfg.ttl = Some(*rng.pick(&d));
                        cfg.tti = Some(*rng.pick(&d));
                    }
                }
            } else {
                if cfg.ttl == Some(0) {
                    cfg.ttl = Some(SEC);
                }
                if cfg.tti == Some(0) {
                    cfg.tti = Some(SEC);
                }
            }
            let with_clock = cfg.has_expiry() || rng.chance(1, 3);
            let faulty = rng.chance(1, 2);
            // advances that land around the configured deadlines
            let mut adv_set: Vec<u64> = vec![1, 1, MS, 501 * MS, SEC, SEC, 3 * SEC];
            if pop == "thr-expiry" {
                for d in [cfg.ttl, cfg.tti].into_iter().flatten() {
                    for a in [d / 2, d / 2 + MS, d.saturating_sub(1), d, d + 1] {
                        if a > 0 {
                            adv_set.push(a);
                            adv_set.push(a);
                        }
                    }
                }
            }
            let nkeys = if pop == "thr-expiry" && rng.chance(1, 2) { 1 } else { nkeys };
            let max_len = if pop == "thr-expiry" { 8 } else { 6 };
            for t in 0..nthreads {
                let len = rng.range(1, max_len) as usize;
                let mut prog = Vec::new();
                let maint_thread = t == nthreads - 1 && nthreads > 2 && rng.chance(1, 4);
                for i in 0..len {
                    let op = if maint_thread {
                        Op::Sync
                    } else {
                        match rng.weighted(&[6, 6, 1, 1, 2, 1, 2, if with_clock { 2 } else { 0 }]) {
                            0 => {
                                let w = if pop == "thr-strict" { 1 + rng.below(2) as u32 } else { *rng.pick(&[0u32, 1, 1, 2, 3]) };
                                let vid = next_vid;
                                next_vid += 1;
                                Op::Insert { k: rng.below(nkeys as u64) as u16, vid, w }
                            }
                            1 => Op::Get { k: rng.below(nkeys as u64) as u16 },
                            2 => Op::Contains { k: rng.below(nkeys as u64) as u16 },
                            3 => Op::Iter,
                            4 => Op::Invalidate { k: rng.below(nkeys as u64) as u16 },
                            5 => Op::InvalidateAll,
                            6 => Op::Sync,
                            _ => Op::Advance {
                                ns: *rng.pick(&adv_set),
                            },
                        }
                    };
                    let mut f = Faults::default();
                    if faulty {
                        if matches!(op, Op::Get { .. }) && rng.chance(1, 6) {
                            f.read_drop = true;
                        }
                        if matches!(op, Op::Get { .. } | Op::Insert { .. } | Op::Invalidate { .. }) && rng.chance(1, 6) {
                            f.hk_contended = rng.range(1, 3) as u8;
                        }
                        if matches!(op, Op::Insert { .. } | Op::Invalidate { .. }) && rng.chance(1, 6) {
                            f.write_full = rng.range(1, 6) as u8;
                        }
                    }
                    prog.push(OpRec { op, f });
                    if i + 1 == len && rng.chance(1, 5) {
                        prog.push(OpRec::plain(Op::DropHandle));
                    }
                }
                threads.push(prog);
            }
            if pop == "thr-strict" && cfg.cap.is_some() {
                // capacity-safe by construction: the weights of all keys fit
                cfg.cap = Some(16);
            }
        }
        "thr-iter" => {
            // k writers updating a fixed key set, m stepped iterators; ample capacity, no expiry
            cfg.ttl = None;
            cfg.tti = None;
            cfg.cap = *rng.pick(&[None, Some(64)]);
            cfg.weigher = false;
            cfg.hasher = *rng.pick(&[HashMode::Fixed, HashMode::Fixed, HashMode::Collide1, HashMode::Collide2]);
            cfg.shards = *rng.pick(&[None, None, Some(2usize), Some(8), Some(16)]);
            let nkeys = rng.range(1, 6) as u16;
            for k in 0..nkeys {
                prologue.push(OpRec::plain(Op::Insert { k, vid: next_vid, w: 1 }));
                next_vid += 1;
            }
            let writers = rng.range(1, 2) as usize;
            let iters = rng.range(1, 2) as usize;
            for _ in 0..writers {
                let len = rng.range(1, 5) as usize;
                let mut prog = Vec::new();
                for _ in 0..len {
                    prog.push(OpRec::plain(Op::Insert {
                        k: rng.below(nkeys as u64) as u16,
                        vid: next_vid,
                        w: 1,
                    }));
                    next_vid += 1;
                    if rng.chance(1, 6) {
                        prog.push(OpRec::plain(Op::Sync));
                    }
                }
                threads.push(prog);
            }
            for _ in 0..iters {
                let mut prog = vec![OpRec::plain(Op::IterBegin)];
                let steps = rng.range(0, nkeys as u64 + 1) as usize;
                for _ in 0..steps {
                    prog.push(OpRec::plain(Op::IterNext));
                }
                prog.push(OpRec::plain(Op::IterEnd));
                if rng.chance(1, 3) {
                    prog.push(OpRec::plain(Op::Iter));
                }
                threads.push(prog);
            }
        }
        "thr-inval" => {
            // invalidate_all / invalidate racing with inserts, reads, maintenance and a clock
            // that moves in 1 ns steps: the watermark (valid_after) is compared with clock
            // readings, so its races need an advance at the right place. Mostly unbounded
            // (strict register: a value may neither reappear nor be hidden spuriously).
            cfg.cap = *rng.pick(&[None, None, None, Some(16), Some(2)]);
            cfg.weigher = cfg.weigher && rng.chance(1, 3);
            if rng.chance(3, 4) {
                cfg.ttl = None;
                cfg.tti = None;
            } else {
                if cfg.ttl == Some(0) {
                    cfg.ttl = Some(SEC);
                }
                if cfg.tti == Some(0) {
                    cfg.tti = Some(SEC);
                }
            }
            let nthreads = rng.range(2, 4) as usize;
            let nkeys = rng.range(1, 2) as u16;
            let faulty = rng.chance(1, 3);
            // sometimes the cache already holds entries and/or a watermark
            if rng.chance(1, 2) {
                for k in 0..nkeys {
                    if rng.chance(2, 3) {
                        prologue.push(OpRec::plain(Op::Insert { k, vid: next_vid, w: 1 }));
                        next_vid += 1;
                    }
                }
                prologue.push(OpRec::plain(Op::Sync));
            }
            for t in 0..nthreads {
                let len = rng.range(1, 6) as usize;
                let mut prog = Vec::new();
                let maint_thread = t == nthreads - 1 && nthreads > 2 && rng.chance(1, 3);
                for _ in 0..len {
                    let op = if maint_thread {
                        if rng.chance(2, 3) {
                            Op::Sync
                        } else {
                            Op::Get { k: rng.below(nkeys as u64) as u16 }
                        }
                    } else {
                        match rng.weighted(&[5, 5, 3, 2, 5, 2, 1, 1]) {
                            0 => {
                                let vid = next_vid;
                                next_vid += 1;
                                Op::Insert { k: rng.below(nkeys as u64) as u16, vid, w: 1 }
                            }
                            1 => Op::Get { k: rng.below(nkeys as u64) as u16 },
                            2 => Op::InvalidateAll,
                            3 => Op::Invalidate { k: rng.below(nkeys as u64) as u16 },
                            4 => Op::Advance { ns: *rng.pick(&[1u64, 1, 1, MS, 501 * MS]) },
                            5 => Op::Sync,
                            6 => Op::Contains { k: rng.below(nkeys as u64) as u16 },
                            _ => Op::Iter,
                        }
                    };
                    let mut f = Faults::default();
                    if faulty {
                        if matches!(op, Op::Get { .. }) && rng.chance(1, 6) {
                            f.read_drop = true;
                        }
                        if matches!(op, Op::Get { .. } | Op::Insert { .. } | Op::Invalidate { .. }) && rng.chance(1, 5) {
                            f.hk_contended = rng.range(1, 3) as u8;
                        }
                        if matches!(op, Op::Insert { .. } | Op::Invalidate { .. }) && rng.chance(1, 8) {
                            f.write_full = rng.range(1, 4) as u8;
                        }
                    }
                    prog.push(OpRec { op, f });
                }
                threads.push(prog);
            }
        }
        "thr-warm" => {
            // A cache that is full and warm (recency order and popularity estimates built by
            // the prologue) when the threads start: admissions meet victims, victims are
            // updated / read / invalidated by other threads while maintenance is parked
            // between its decision and each removal.
            let cap = *rng.pick(&[2u64, 3, 3, 4, 4, 6]);
            cfg.cap = Some(cap);
            cfg.init_cap = None;
            match rng.below(6) {
                0 => {
                    cfg.ttl = Some(*rng.pick(&[SEC, 3 * SEC]));
                    cfg.tti = None;
                }
                1 => {
                    cfg.tti = Some(*rng.pick(&[SEC, 3 * SEC]));
                    cfg.ttl = None;
                }
                _ => {
                    cfg.ttl = None;
                    cfg.tti = None;
                }
            }
            // residents: keys 0..r filling the capacity (unit weights, or weights 1..2)
            let mut filled = 0u64;
            let mut r = 0u16;
            while filled < cap && r < 6 {
                let w = if cfg.weigher { 1 + rng.below(2) as u32 } else { 1 };
                let pw = if cfg.weigher { w as u64 } else { 1 };
                if filled + pw > cap {
                    break;
                }
                prologue.push(OpRec::plain(Op::Insert { k: r, vid: next_vid, w }));
                next_vid += 1;
                filled += pw;
                r += 1;
            }
            prologue.push(OpRec::plain(Op::Sync));
            let nfresh = rng.range(1, 2) as u16;
            // popularity: residents 0..3 reads each, newcomers 0..6 (misses count as well)
            for k in 0..r {
                for _ in 0..rng.below(4) {
                    prologue.push(OpRec::plain(Op::Get { k }));
                }
            }
            for k in r..r + nfresh {
                for _ in 0..rng.below(7) {
                    prologue.push(OpRec::plain(Op::Get { k }));
                }
            }
            prologue.push(OpRec::plain(Op::Sync));
            let nthreads = rng.range(2, 3) as usize;
            let with_clock = cfg.has_expiry();
            let faulty = rng.chance(1, 3);
            let allk = r + nfresh;
            for t in 0..nthreads {
                let len = rng.range(1, 5) as usize;
                let mut prog = Vec::new();
                let maint_thread = t == nthreads - 1 && nthreads > 2 && rng.chance(1, 4);
                for _ in 0..len {
                    let op = if maint_thread {
                        Op::Sync
                    } else {
                        match rng.weighted(&[8, 3, 4, 2, 2, 1, 1, if with_clock { 2 } else { 0 }]) {
                            0 => {
                                let vid = next_vid;
                                next_vid += 1;
                                Op::Insert { k: r + rng.below(nfresh as u64) as u16, vid, w: *rng.pick(&[0u32, 1, 1, 1, 2]) }
                            }
                            1 => {
                                let vid = next_vid;
                                next_vid += 1;
                                Op::Insert { k: rng.below(r.max(1) as u64) as u16, vid, w: *rng.pick(&[0u32, 1, 1, 2, 3]) }
                            }
                            2 => Op::Get { k: rng.below(allk as u64) as u16 },
                            3 => Op::Invalidate { k: rng.below(allk as u64) as u16 },
                            4 => Op::Sync,
                            5 => {
                                if rng.chance(1, 2) {
                                    Op::Iter
                                } else {
                                    Op::Contains { k: rng.below(allk as u64) as u16 }
                                }
                            }
                            6 => Op::InvalidateAll,
                            _ => Op::Advance { ns: *rng.pick(&[1u64, MS, 501 * MS, SEC, SEC, 3 * SEC]) },
                        }
                    };
                    let mut f = Faults::default();
                    if faulty {
                        if matches!(op, Op::Get { .. }) && rng.chance(1, 6) {
                            f.read_drop = true;
                        }
                        if matches!(op, Op::Get { .. } | Op::Insert { .. } | Op::Invalidate { .. }) && rng.chance(1, 6) {
                            f.hk_contended = rng.range(1, 3) as u8;
                        }
                        if matches!(op, Op::Insert { .. } | Op::Invalidate { .. }) && rng.chance(1, 8) {
                            f.write_full = rng.range(1, 6) as u8;
                        }
                    }
                    prog.push(OpRec { op, f });
                }
                if rng.chance(1, 6) {
                    prog.push(OpRec::plain(Op::DropHandle));
                }
                threads.push(prog);
            }
            // in a third of the runs a stepped iterator holds shard locks while maintenance
            // has to admit / evict (it must wait for the lock, not pick somebody else)
            if rng.chance(1, 3) {
                let mut prog = vec![OpRec::plain(Op::IterBegin)];
                for _ in 0..rng.range(1, allk as u64) {
                    prog.push(OpRec::plain(Op::IterNext));
                }
                prog.push(OpRec::plain(Op::IterEnd));
                threads.push(prog);
                if rng.chance(1, 2) {
                    cfg.hasher = *rng.pick(&[HashMode::Fixed, HashMode::Collide1, HashMode::Collide2]);
                }
            }
        }
        "thr-iter-mixed" => {
            // stepped iterators beside threads that insert new keys, invalidate, expire and
            // evict (not only update): C16's "never an expired or invalidated entry", C08, C09
            cfg.cap = *rng.pick(&[None, None, Some(3), Some(4), Some(64)]);
            cfg.hasher = *rng.pick(&[HashMode::Fixed, HashMode::Fixed, HashMode::Collide1, HashMode::Collide2]);
            cfg.shards = *rng.pick(&[None, None, Some(2usize), Some(8), Some(16)]);
            match rng.below(4) {
                0 => {
                    cfg.ttl = Some(*rng.pick(&[1u64, SEC]));
                    cfg.tti = None;
                }
                1 => {
                    cfg.tti = Some(*rng.pick(&[1u64, SEC]));
                    cfg.ttl = None;
                }
                _ => {
                    cfg.ttl = None;
                    cfg.tti = None;
                }
            }
            let nkeys = rng.range(1, 5) as u16;
            for k in 0..nkeys {
                prologue.push(OpRec::plain(Op::Insert { k, vid: next_vid, w: 1 }));
                next_vid += 1;
            }
            let with_clock = cfg.has_expiry();
            let faulty = rng.chance(1, 3);
            let mutators = rng.range(1, 2) as usize;
            let iters = rng.range(1, 2) as usize;
            for _ in 0..mutators {
                let len = rng.range(1, 5) as usize;
                let mut prog = Vec::new();
                for _ in 0..len {
                    let op = match rng.weighted(&[5, 2, 4, 1, 2, 2, if with_clock { 3 } else { 0 }]) {
                        0 => {
                            let vid = next_vid;
                            next_vid += 1;
                            Op::Insert { k: rng.below(nkeys as u64) as u16, vid, w: *rng.pick(&[0u32, 1, 1, 2]) }
                        }
                        1 => {
                            let vid = next_vid;
                            next_vid += 1;
                            Op::Insert { k: nkeys + rng.below(2) as u16, vid, w: 1 }
                        }
                        2 => Op::Invalidate { k: rng.below(nkeys as u64 + 1) as u16 },
                        3 => Op::InvalidateAll,
                        4 => Op::Sync,
                        5 => Op::Get { k: rng.below(nkeys as u64 + 1) as u16 },
                        _ => Op::Advance { ns: *rng.pick(&[1u64, 1, MS, 501 * MS, SEC - 1, SEC, SEC + 1]) },
                    };
                    let mut f = Faults::default();
                    if faulty {
                        if matches!(op, Op::Get { .. } | Op::Insert { .. } | Op::Invalidate { .. }) && rng.chance(1, 6) {
                            f.hk_contended = rng.range(1, 3) as u8;
                        }
                        if matches!(op, Op::Insert { .. } | Op::Invalidate { .. }) && rng.chance(1, 8) {
                            f.write_full = rng.range(1, 4) as u8;
                        }
                    }
                    prog.push(OpRec { op, f });
                }
                threads.push(prog);
            }
            for _ in 0..iters {
                let mut prog = vec![OpRec::plain(Op::IterBegin)];
                let steps = rng.range(0, nkeys as u64 + 2) as usize;
                for _ in 0..steps {
                    prog.push(OpRec::plain(Op::IterNext));
                }
                prog.push(OpRec::plain(Op::IterEnd));
                if rng.chance(1, 3) {
                    prog.push(OpRec::plain(Op::Iter));
                }
                threads.push(prog);
            }
        }
        "thr-long" => {
            // Longer programs over more keys, mostly with lagged maintenance (the clock moves
            // past the periodic-sync interval again and again, so maintenance only runs when a
            // queue reaches its flush point, inside whichever thread gets there): batches of
            // tens of records are applied while other threads keep operating on the same keys,
            // reads are applied long after they were recorded, the repeat loop of a pass runs.
            // "stall" variant: thread 1 is parked for hundreds of steps (often inside a
            // maintenance pass, holding the flag and the deques lock) while thread 0 queues
            // more than a flush point of records
            long_stall = rng.chance(1, 4);
            let nthreads = if long_stall { 2 } else { rng.range(2, 3) as usize };
            let nkeys = if long_stall { rng.range(6, 12) as u16 } else { rng.range(3, 8) as u16 };
            cfg.cap = *rng.pick(&[None, None, Some(2), Some(4), Some(8), Some(64)]);
            match rng.below(5) {
                0 => {
                    cfg.ttl = Some(*rng.pick(&[SEC, 3 * SEC, 20 * SEC]));
                    cfg.tti = None;
                }
                1 => {
                    cfg.tti = Some(*rng.pick(&[SEC, 3 * SEC, 20 * SEC]));
                    cfg.ttl = None;
                }
                _ => {
                    cfg.ttl = None;
                    cfg.tti = None;
                }
            }
            let lagged = if long_stall { rng.chance(1, 2) } else { rng.chance(3, 4) };
            let faulty = rng.chance(1, 3);
            // residents and their popularity / recency (maintenance has run when the threads start)
            if rng.chance(1, 2) {
                for k in 0..nkeys {
                    if rng.chance(2, 3) {
                        prologue.push(OpRec::plain(Op::Insert { k, vid: next_vid, w: 1 }));
                        next_vid += 1;
                    }
                }
                prologue.push(OpRec::plain(Op::Sync));
                for k in 0..nkeys {
                    for _ in 0..rng.below(3) {
                        prologue.push(OpRec::plain(Op::Get { k }));
                    }
                }
            }
            let max_len = if nthreads == 2 { 70 } else { 45 };
            for t in 0..nthreads {
                let len = if long_stall {
                    if t == 0 {
                        rng.range(80, 170) as usize
                    } else {
                        rng.range(2, 12) as usize
                    }
                } else {
                    rng.range(8, max_len) as usize
                };
                let mut prog = Vec::new();
                // a reader-heavy thread fills the read queue, a writer-heavy one the write queue
                let reader = rng.chance(1, if long_stall { 2 } else { 3 });
                if lagged {
                    prog.push(OpRec::plain(Op::Advance { ns: 501 * MS }));
                }
                if long_stall && t == 1 && rng.chance(2, 3) {
                    // enters a maintenance pass at once (and is parked there)
                    prog.push(OpRec::plain(Op::Sync));
                }
                for _ in 0..len {
                    let wi = if reader { 2 } else { 8 };
                    let wg = if reader { 12 } else { 5 };
                    let op = match rng.weighted(&[wi, wg, 1, 1, 2, if t == 0 { 1 } else { 0 }, if long_stall && t == 0 { 0 } else { 1 }, if lagged { 3 } else { 1 }]) {
                        0 => {
                            let vid = next_vid;
                            next_vid += 1;
                            Op::Insert { k: rng.below(nkeys as u64) as u16, vid, w: *rng.pick(&[0u32, 1, 1, 1, 2, 3]) }
                        }
                        1 => Op::Get { k: rng.below(nkeys as u64) as u16 },
                        2 => Op::Contains { k: rng.below(nkeys as u64) as u16 },
                        3 => Op::Iter,
                        4 => Op::Invalidate { k: rng.below(nkeys as u64) as u16 },
                        5 => {
                            if rng.chance(1, 3) {
                                Op::InvalidateAll
                            } else {
                                Op::Get { k: rng.below(nkeys as u64) as u16 }
                            }
                        }
                        6 => Op::Sync,
                        _ => Op::Advance {
                            ns: if lagged { *rng.pick(&[501 * MS, 501 * MS, 501 * MS, SEC, 1]) } else { *rng.pick(&[1u64, MS, SEC, 3 * SEC]) },
                        },
                    };
                    let mut f = Faults::default();
                    if faulty {
                        if matches!(op, Op::Get { .. }) && rng.chance(1, 10) {
                            f.read_drop = true;
                        }
                        if matches!(op, Op::Get { .. } | Op::Insert { .. } | Op::Invalidate { .. }) && rng.chance(1, 10) {
                            f.hk_contended = rng.range(1, 3) as u8;
                        }
                        if matches!(op, Op::Insert { .. } | Op::Invalidate { .. }) && rng.chance(1, 12) {
                            f.write_full = rng.range(1, 6) as u8;
                        }
                    }
                    prog.push(OpRec { op, f });
                }
                if rng.chance(1, 6) {
                    prog.push(OpRec::plain(Op::DropHandle));
                }
                threads.push(prog);
            }
        }
        "burst" => {
            engine = Engine::Burst;
            cfg.cap = *rng.pick(&[None, Some(0), Some(1), Some(4), Some(16), Some(100)]);
            cfg.hasher = HashMode::Fixed;
            if rng.chance(1, 2) {
                cfg.ttl = None;
                cfg.tti = None;
            }
            let n = *rng.pick(&[385usize, 400, 600, 1000, 1000, 2500]);
            // "stall" scenario: a second thread wins the maintenance flag with its first
            // operation and is then starved inside Inner::sync while the first thread keeps
            // inserting (only the bounded write queue limits the overshoot)
            let stall = rng.chance(1, 3);
            let nthreads = if stall || rng.chance(1, 3) { 2 } else { 1 };
            let regime_b = rng.chance(1, 2);
            let contended = rng.chance(1, 2);
            let universe = *rng.pick(&[4u16, 64, 3000]);
            for t in 0..nthreads {
                let mut prog = Vec::new();
                if t == 1 && stall {
                    prog.push(OpRec::plain(Op::Insert { k: 7, vid: next_vid, w: 1 }));
                    next_vid += 1;
                    for _ in 0..rng.range(1, 4) {
                        prog.push(OpRec::plain(Op::Get { k: rng.below(universe as u64) as u16 }));
                    }
                    threads.push(prog);
                    continue;
                }
                if t == 1 && rng.chance(1, 2) {
                    // a second thread that only triggers maintenance / reads
                    for _ in 0..rng.range(3, 30) {
                        prog.push(OpRec::plain(if rng.chance(1, 3) { Op::Sync } else { Op::Get { k: rng.below(universe as u64) as u16 } }));
                    }
                    threads.push(prog);
                    continue;
                }
                let mine = if stall { n } else { n / nthreads };
                for _ in 0..mine {
                    if regime_b && rng.chance(1, 40) {
                        prog.push(OpRec::plain(Op::Advance { ns: 501 * MS }));
                    }
                    let op = match rng.weighted(&[10, 2, 1]) {
                        0 => {
                            let vid = next_vid;
                            next_vid += 1;
                            Op::Insert { k: rng.below(universe as u64) as u16, vid, w: *rng.pick(&[0u32, 1, 1, 2]) }
                        }
                        1 => Op::Get { k: rng.below(universe as u64) as u16 },
                        _ => Op::Invalidate { k: rng.below(universe as u64) as u16 },
                    };
                    let mut f = Faults::default();
                    if contended && rng.chance(1, 2) {
                        f.hk_contended = 3;
                    }
                    prog.push(OpRec { op, f });
                }
                threads.push(prog);
            }
            if regime_b && !stall {
                prologue.clear();
                threads[0].insert(0, OpRec::plain(Op::Advance { ns: 501 * MS }));
            }
            if stall {
                burst_stall = true;
            }
        }
        _ => return None,
    }
    // shard amount of the DashMap: a separate stream, so that the programs and schedules a
    // seed generates do not depend on it
    if matches!(pop, "thr-mixed" | "thr-strict" | "thr-expiry" | "thr-warm" | "thr-inval" | "thr-long") {
        let mut r2 = Prng::new(mix(sub, 77, 0));
        if r2.chance(1, 3) {
            cfg.shards = Some(*r2.pick(&[2usize, 8, 16]));
        }
    }
    // burst: initial_capacity must have no effect on the back-pressure (a separate stream)
    if pop == "burst" {
        let mut r3 = Prng::new(mix(sub, 78, 0));
        cfg.init_cap = *r3.pick(&[None, Some(0usize), Some(7), Some(300), Some(2000)]);
    }
    let total: usize = threads.iter().map(|t| t.len()).sum();
    let cfg_weigher = cfg.weigher;
    let expected_steps = (total * 12).max(20);
    let policy = match rng.below(3) {
        0 => "random",
        1 => "sticky",
        _ => "pct",
    };
    let d = rng.range(1, 3) as usize;
    let change_points: Vec<usize> = (0..d).map(|_| rng.below(expected_steps as u64) as usize).collect();
    let fair_after = if burst_stall {
        350 * total
    } else if engine == Engine::Burst {
        (expected_steps as u64 * rng.range(1, 3) / 2) as usize
    } else {
        rng.range(expected_steps as u64 / 2, expected_steps as u64 * 2) as usize
    };
    let starve = if burst_stall {
        // thread 1 is parked soon after it entered maintenance, for most of the run
        let a = rng.range(6, 14) as usize;
        Some((1usize, a, a + 300 * total))
    } else if long_stall {
        // the other thread queues more than a flush point of records meanwhile (the pass
        // repeats; what it applies is stale by the time it is applied)
        let a = rng.range(0, 40) as usize;
        Some((1usize, a, a + rng.range(300, 2500) as usize))
    } else if rng.chance(1, 4) && threads.len() > 1 {
        let a = rng.below(expected_steps as u64) as usize;
        Some((rng.below(threads.len() as u64) as usize, a, a + rng.range(5, 60) as usize))
    } else {
        None
    };
    let budget = if engine == Engine::Burst { 400 * total + 20_000 } else { 20_000 };
    let fair_after = match (pop, starve) {
        ("thr-long", Some((_, _, b))) => fair_after.max(b + if long_stall { expected_steps } else { 0 }),
        _ => fair_after,
    };
    Some(Trace {
        engine,
        config: cfg,
        threads,
        extra: Vec::new(),
        schedule: Vec::new(),
        sched: Some(SchedSpec {
            policy: policy.to_string(),
            seed: rng.next_u64(),
            change_points,
            fair_after,
            starve,
            starve_in_sync: long_stall,
            // half of the stalled maintenance threads are slow rather than stopped: they get a
            // few steps now and then (a pass that has taken records out of the queue goes on
            // holding them while the other threads refill the queue)
            starve_stutter: if (burst_stall || long_stall) && Prng::new(mix(sub, 81, 0)).chance(1, 2) {
                let mut r5 = Prng::new(mix(sub, 82, 0));
                Some((r5.range(150, 900) as usize, r5.range(2, 12) as usize))
            } else {
                None
            },
            budget,
        }),
        prologue,
        callback_faults: if pop == "thr-callback" {
            let mut cf = CallbackFaults::default();
            match rng.below(4) {
                0 => cf.hash_panic_at = Some(rng.below(4 * total as u64 + 1) as u32),
                1 => cf.eq_panic_at = Some(rng.below(3 * total as u64 + 1) as u32),
                _ => {
                    if cfg_weigher && rng.chance(1, 2) {
                        cf.weigh_panic_at = Some(rng.below(total as u64 + 1) as u32);
                    } else {
                        cf.clone_panic_at = Some(rng.below(total as u64 + 1) as u32);
                    }
                }
            }
            cf
        } else {
            CallbackFaults::default()
        },
        origin: Some(Origin {
            seed,
            run,
            population: pop.to_string(),
        }),
    })
}
