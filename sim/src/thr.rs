//! Engines `thr` and `burst` (placeholder until the baton engines are wired in).
use crate::ops::Trace;
use crate::report::RunReport;

pub fn run_thr(_trace: &Trace) -> (RunReport, Vec<u8>) {
    (RunReport::default(), Vec::new())
}

pub fn generate(_pop: &str, _seed: u64, _run: u64) -> Option<Trace> {
    None
}
