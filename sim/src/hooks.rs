//! The `mini_moka::verif::Hooks` implementation the simulator installs on its threads.

use std::collections::BTreeMap;
use std::sync::{Arc, Mutex};

use mini_moka::verif::Hooks;

use crate::ops::Faults;
use crate::sched::Sched;

/// Counters shared by all threads of one run.
#[derive(Default)]
pub struct Shared {
    pub probes: Mutex<BTreeMap<&'static str, u64>>,
    pub faults_fired: Mutex<BTreeMap<&'static str, u64>>,
    /// (probe id, argument) pairs of the keyed "loss.*" probes.
    pub keyed: Mutex<std::collections::BTreeSet<(&'static str, u64)>>,
    /// Ordered log of what maintenance applied: (kind, incarnation = EntryInfo address);
    /// kind 0 = a recorded read hit, 1 = a recorded write (insert/update), 2 = a node
    /// rotated to the MRU end without a use (skipped victim / dirty entry met by the
    /// size-based eviction).
    pub applied: Mutex<Vec<(u8, u64)>>,
    /// switch points under a shard write lock are taken (Config::wlock_sp)
    pub wlock_sp: std::sync::atomic::AtomicBool,
    /// number of threads currently parked at such a switch point
    pub write_held: std::sync::atomic::AtomicUsize,
    /// write records the maintenance pass in progress has applied so far (0 between passes)
    pub pass_applied: std::sync::atomic::AtomicUsize,
}

impl Shared {
    pub fn probe_count(&self, id: &str) -> u64 {
        self.probes
            .lock()
            .unwrap()
            .iter()
            .find(|(k, _)| **k == id)
            .map(|(_, v)| *v)
            .unwrap_or(0)
    }
}

/// Per-thread, per-operation state.
#[derive(Default, Clone, Debug)]
pub struct OpState {
    pub faults: Faults,
    pub read_dropped: bool,
    pub hk_synced: u32,
    pub hk_lost: u32,
    pub write_full_seen: u32,
}

pub struct SimHooks {
    pub tid: usize,
    pub shared: Arc<Shared>,
    pub sched: Option<Arc<Sched>>,
    pub op: Mutex<OpState>,
    /// consecutive write-retry switch points seen without a scheduler (seq engine / main thread)
    pub retries: std::sync::atomic::AtomicU64,
}

/// Payload marker of the panic raised when an operation spins in the write-retry loop.
pub const RETRY_LIVELOCK: &str = "mmsim-write-retry-livelock";
pub const RETRY_LIMIT: u64 = 300_000;

impl SimHooks {
    pub fn new(tid: usize, shared: Arc<Shared>, sched: Option<Arc<Sched>>) -> Arc<SimHooks> {
        Arc::new(SimHooks {
            tid,
            shared,
            sched,
            op: Mutex::new(OpState::default()),
            retries: std::sync::atomic::AtomicU64::new(0),
        })
    }

    pub fn begin_op(&self, f: Faults) {
        self.retries.store(0, std::sync::atomic::Ordering::Relaxed);
        *self.op.lock().unwrap() = OpState {
            faults: f,
            ..Default::default()
        };
    }

    pub fn end_op(&self) -> OpState {
        self.op.lock().unwrap().clone()
    }

    fn fired(&self, kind: &'static str) {
        *self
            .shared
            .faults_fired
            .lock()
            .unwrap()
            .entry(kind)
            .or_insert(0) += 1;
    }
}

impl Hooks for SimHooks {
    fn sp(&self, site: &'static str) {
        if let Some(s) = &self.sched {
            s.switch_point(self.tid, site);
        } else if site == "write.retry" {
            // Without a scheduler nobody else can make room: an operation that keeps
            // retrying is livelocked (C09). Unwind instead of hanging the worker.
            let n = self.retries.fetch_add(1, std::sync::atomic::Ordering::Relaxed);
            if n > RETRY_LIMIT {
                panic!("{}", RETRY_LIVELOCK);
            }
        }
    }

    fn sp_locked(&self, site: &'static str) {
        use std::sync::atomic::Ordering::SeqCst;
        if let Some(s) = &self.sched {
            if self.shared.wlock_sp.load(SeqCst) {
                self.shared.write_held.fetch_add(1, SeqCst);
                s.switch_point(self.tid, site);
                self.shared.write_held.fetch_sub(1, SeqCst);
            }
        }
    }

    fn map_probe_any(&self) {
        use std::sync::atomic::Ordering::SeqCst;
        if let Some(s) = &self.sched {
            if self.shared.wlock_sp.load(SeqCst) {
                let shared = Arc::clone(&self.shared);
                s.map_probe(self.tid, &move || shared.write_held.load(SeqCst) > 0);
            }
        }
    }

    fn lock_enter(&self, lock: &'static str) {
        if let Some(s) = &self.sched {
            s.lock_enter(self.tid, lock);
        }
        if lock == "deques" {
            self.shared.pass_applied.store(0, std::sync::atomic::Ordering::SeqCst);
        }
    }

    fn lock_exit(&self, lock: &'static str) {
        if lock == "deques" {
            self.shared.pass_applied.store(0, std::sync::atomic::Ordering::SeqCst);
        }
        if let Some(s) = &self.sched {
            s.lock_exit(self.tid, lock);
        }
    }

    fn map_probe(&self, is_locked: &dyn Fn() -> bool) {
        if let Some(s) = &self.sched {
            s.map_probe(self.tid, is_locked);
        }
    }

    fn buggify(&self, site: &'static str) -> bool {
        if let Some(s) = &self.sched {
            if !s.faults_allowed() {
                return false;
            }
        }
        let mut op = self.op.lock().unwrap();
        match site {
            "read.drop" => {
                if op.faults.read_drop {
                    op.faults.read_drop = false;
                    drop(op);
                    self.fired("read_record_lost");
                    return true;
                }
                false
            }
            "hk.contended" => {
                if op.faults.hk_contended > 0 {
                    op.faults.hk_contended -= 1;
                    drop(op);
                    self.fired("maintenance_contended");
                    return true;
                }
                false
            }
            "write.full" => {
                if op.faults.write_full > 0 {
                    op.faults.write_full -= 1;
                    op.write_full_seen += 1;
                    drop(op);
                    self.fired("write_channel_full");
                    return true;
                }
                false
            }
            _ => false,
        }
    }

    fn probe(&self, id: &'static str, _arg: u64) {
        {
            let mut op = self.op.lock().unwrap();
            match id {
                "read.dropped" => op.read_dropped = true,
                "hk.synced" => op.hk_synced += 1,
                "hk.lost" => op.hk_lost += 1,
                "write.channel_full" => op.write_full_seen += 1,
                _ => {}
            }
        }
        *self.shared.probes.lock().unwrap().entry(id).or_insert(0) += 1;
        if id.starts_with("loss") {
            self.shared.keyed.lock().unwrap().insert((id, _arg));
        }
        match id {
            "apply.hit" => self.shared.applied.lock().unwrap().push((0, _arg)),
            "apply.upsert" => {
                self.shared.pass_applied.fetch_add(1, std::sync::atomic::Ordering::SeqCst);
                self.shared.applied.lock().unwrap().push((1, _arg))
            }
            "rotate" => self.shared.applied.lock().unwrap().push((2, _arg)),
            _ => {}
        }
    }
}

/// Resolves the hash arguments of the keyed probes back to the keys a run used.
pub fn resolve_keyed(shared: &Shared, mode: crate::types::HashMode, keys: &[u16]) -> BTreeMap<String, Vec<u16>> {
    let mut out: BTreeMap<String, Vec<u16>> = BTreeMap::new();
    let keyed = shared.keyed.lock().unwrap();
    for (id, h) in keyed.iter() {
        for k in keys {
            if crate::types::hash_of(mode, *k) == *h {
                out.entry(id.to_string()).or_default().push(*k);
            }
        }
    }
    out
}

/// C12 on the concurrent cache, "with respect to the order in which maintenance applied the
/// recorded reads and writes": at a quiescent point (both queues empty) the residents must
/// sit in the access-order deque in the order of their last applied use. Entries that were
/// rotated without a use since their last applied use (in-flux victims, dirty entries met
/// by the size-based eviction) are left out. Returns (pairs compared, first misordering).
pub fn check_applied_order(shared: &Shared, snap: &mini_moka::verif::Snapshot) -> (u64, Option<String>) {
    let log = shared.applied.lock().unwrap();
    let mut last_use: BTreeMap<u64, usize> = BTreeMap::new();
    let mut rotated: BTreeMap<u64, usize> = BTreeMap::new();
    for (i, (kind, info)) in log.iter().enumerate() {
        if *kind == 2 {
            rotated.insert(*info, i);
        } else {
            last_use.insert(*info, i);
        }
    }
    let resident: BTreeMap<u64, u64> = snap
        .entries
        .iter()
        .filter(|e| e.admitted && e.has_ao_node && e.info != 0 && !e.dirty)
        .map(|e| (e.info as u64, e.key))
        .collect();
    let mut prev: Option<(usize, u64)> = None;
    let mut compared = 0u64;
    for n in &snap.probation {
        let info = n.info as u64;
        let key = match resident.get(&info) {
            Some(k) => *k,
            None => continue,
        };
        let lu = match last_use.get(&info) {
            Some(i) => *i,
            None => continue,
        };
        if rotated.get(&info).map(|r| *r > lu).unwrap_or(false) {
            continue;
        }
        if let Some((plu, pkey)) = prev {
            compared += 1;
            if plu > lu {
                return (
                    compared,
                    Some(format!(
                        "key {} (last use applied as record #{}) sits closer to the MRU end than key {} (last use applied as record #{}): the access-order deque does not reflect the order in which maintenance applied the recorded reads and writes",
                        key, lu, pkey, plu
                    )),
                );
            }
        }
        prev = Some((lu, key));
    }
    (compared, None)
}
