//! The baton scheduler: real OS threads, exactly one of which runs at any time.
//!
//! A thread runs until it reaches a switch point, a modelled lock it cannot take, or a
//! map probe that reports "locked"; there it picks the next thread (under the state
//! mutex, from the run's own PRNG or from an explicit schedule) and parks itself.
//! Blocking is modelled, never real.

use std::collections::{BTreeMap, BTreeSet};
use std::sync::{Condvar, Mutex};

use crate::prng::{Fnv, Prng};

#[derive(Clone, Copy, Debug, PartialEq, Eq)]
pub enum Status {
    Runnable,
    BlockedLock(&'static str),
    /// Blocked on a map shard; `epoch` = progress epoch at which the probe last failed.
    BlockedMap(u64),
    Finished,
}

#[derive(Clone, Debug, PartialEq, Eq)]
pub enum Abort {
    Deadlock(String),
    Livelock(String),
}

/// Marker payload used to unwind simulated threads when a run is aborted.
pub struct SchedAbort;

#[derive(Clone, Debug)]
pub enum Policy {
    Random,
    Sticky,
    /// PCT-style: random priorities, `change_points` steps at which the running thread
    /// is demoted.
    Pct { change_points: Vec<usize> },
    /// Follow an explicit schedule, then round-robin.
    Replay,
}

pub struct SchedConfig {
    pub n: usize,
    pub policy: Policy,
    pub seed: u64,
    pub explicit: Vec<u8>,
    pub budget: usize,
    /// From this step on the scheduler is fair (round-robin) and starves nobody.
    pub fair_after: usize,
    /// (thread, from_step, to_step): the thread is not scheduled in that window unless
    /// nobody else can run.
    pub starve: Option<(usize, usize, usize)>,
    /// open the window only once the thread holds the deques lock (see ops::SchedSpec)
    pub starve_in_sync: bool,
    pub starve_stutter: Option<(usize, usize)>,
}

struct State {
    n: usize,
    current: Option<usize>,
    started: bool,
    status: Vec<Status>,
    parked_site: Vec<&'static str>,
    lock_owner: BTreeMap<&'static str, usize>,
    policy: Policy,
    prio: Vec<u64>,
    rng: Prng,
    explicit: Vec<u8>,
    pos: usize,
    recorded: Vec<u8>,
    steps: usize,
    budget: usize,
    fair_after: usize,
    starve: Option<(usize, usize, usize)>,
    starve_in_sync: bool,
    starve_stutter: Option<(usize, usize)>,
    progress_epoch: u64,
    abort: Option<Abort>,
    trace: Fnv,
    pairs: BTreeSet<(&'static str, &'static str)>,
    preemptions: usize,
    starved_steps: usize,
    /// steps executed by other threads while some thread was parked inside Inner::sync
    parked_in_sync_steps: usize,
    max_blocked_map: usize,
    map_blocks: usize,
    lock_blocks: usize,
}

pub struct Sched {
    st: Mutex<State>,
    cvs: Vec<Condvar>,
    done: Condvar,
}

#[derive(Clone, Debug, Default)]
pub struct SchedReport {
    pub schedule: Vec<u8>,
    pub steps: usize,
    pub abort: Option<String>,
    pub abort_kind: Option<&'static str>,
    pub trace_hash: u64,
    pub pairs: Vec<(String, String)>,
    pub preemptions: usize,
    pub starved_steps: usize,
    pub parked_in_sync_steps: usize,
    pub map_blocks: usize,
    pub lock_blocks: usize,
}

impl Sched {
    pub fn new(cfg: SchedConfig) -> Sched {
        let mut rng = Prng::new(cfg.seed);
        let prio: Vec<u64> = (0..cfg.n).map(|_| rng.next_u64() | 1).collect();
        Sched {
            st: Mutex::new(State {
                n: cfg.n,
                current: None,
                started: false,
                status: vec![Status::Runnable; cfg.n],
                parked_site: vec!["start"; cfg.n],
                lock_owner: BTreeMap::new(),
                policy: cfg.policy,
                prio,
                rng,
                explicit: cfg.explicit,
                pos: 0,
                recorded: Vec::new(),
                steps: 0,
                budget: cfg.budget,
                fair_after: cfg.fair_after,
                starve: cfg.starve,
                starve_in_sync: cfg.starve_in_sync,
                starve_stutter: cfg.starve_stutter,
                progress_epoch: 1,
                abort: None,
                trace: Fnv::default(),
                pairs: BTreeSet::new(),
                preemptions: 0,
                starved_steps: 0,
                parked_in_sync_steps: 0,
                max_blocked_map: 0,
                map_blocks: 0,
                lock_blocks: 0,
            }),
            cvs: (0..cfg.n).map(|_| Condvar::new()).collect(),
            done: Condvar::new(),
        }
    }

    fn lock(&self) -> std::sync::MutexGuard<'_, State> {
        self.st.lock().unwrap_or_else(|e| e.into_inner())
    }

    fn eligible(st: &State) -> Vec<usize> {
        (0..st.n)
            .filter(|&t| match st.status[t] {
                Status::Runnable => true,
                Status::BlockedMap(e) => e < st.progress_epoch,
                _ => false,
            })
            .collect()
    }

    /// Picks the next thread to run. Returns None when nobody can run.
    fn pick(st: &mut State, from: Option<usize>) -> Option<usize> {
        let mut el = Self::eligible(st);
        if el.is_empty() {
            return None;
        }
        // starvation fault
        if st.starve_in_sync {
            if let Some((t, a, b)) = st.starve {
                if st.steps >= a && st.lock_owner.get("deques") == Some(&t) {
                    // the window opens now
                    st.starve = Some((t, st.steps, st.steps + (b - a)));
                    st.starve_in_sync = false;
                }
            }
        }
        if let Some((t, a, b)) = st.starve {
            let in_on_phase = match st.starve_stutter {
                Some((on, off)) if st.steps >= a => (st.steps - a) % (on + off).max(1) < on,
                _ => true,
            };
            if !st.starve_in_sync && in_on_phase && st.steps >= a && st.steps < b && st.steps < st.fair_after && el.len() > 1 {
                if el.contains(&t) {
                    st.starved_steps += 1;
                }
                el.retain(|x| *x != t);
            }
        }
        let choice = if st.pos < st.explicit.len() {
            let want = st.explicit[st.pos] as usize;
            st.pos += 1;
            if el.contains(&want) {
                want
            } else {
                el[0]
            }
        } else if matches!(st.policy, Policy::Replay) || st.steps >= st.fair_after {
            // round-robin: next eligible after `from`
            let f = from.unwrap_or(st.n - 1);
            *el.iter().find(|&&t| t > f).unwrap_or(&el[0])
        } else {
            match &st.policy {
                Policy::Random => el[st.rng.below(el.len() as u64) as usize],
                Policy::Sticky => {
                    if let Some(f) = from {
                        if el.contains(&f) && st.rng.chance(9, 10) {
                            f
                        } else {
                            el[st.rng.below(el.len() as u64) as usize]
                        }
                    } else {
                        el[st.rng.below(el.len() as u64) as usize]
                    }
                }
                Policy::Pct { change_points } => {
                    if let Some(f) = from {
                        if change_points.contains(&st.steps) {
                            // demote the running thread below everyone
                            let min = st.prio.iter().copied().min().unwrap_or(1);
                            st.prio[f] = min.saturating_sub(1);
                        }
                    }
                    *el.iter().max_by_key(|&&t| (st.prio[t], t)).unwrap()
                }
                Policy::Replay => unreachable!(),
            }
        };
        st.recorded.push(choice as u8);
        if let Some(f) = from {
            if f != choice && st.status[f] == Status::Runnable {
                st.preemptions += 1;
            }
        }
        Some(choice)
    }

    /// Hands the baton from `tid` to the next thread and waits until `tid` holds it
    /// again. Must be called with `st` locked; returns with it locked.
    fn hand_off<'a>(
        &'a self,
        mut st: std::sync::MutexGuard<'a, State>,
        tid: usize,
    ) -> std::sync::MutexGuard<'a, State> {
        if st.abort.is_some() {
            drop(st);
            std::panic::resume_unwind(Box::new(SchedAbort));
        }
        let next = Self::pick(&mut st, Some(tid));
        match next {
            None => {
                let who: Vec<String> = (0..st.n)
                    .map(|t| format!("T{}:{:?}@{}", t, st.status[t], st.parked_site[t]))
                    .collect();
                st.abort = Some(Abort::Deadlock(format!(
                    "no runnable thread at step {}: {}",
                    st.steps,
                    who.join(" ")
                )));
                self.wake_all(&st);
                drop(st);
                std::panic::resume_unwind(Box::new(SchedAbort));
            }
            Some(n) if n == tid => {
                st.current = Some(tid);
                st
            }
            Some(n) => {
                st.current = Some(n);
                self.cvs[n].notify_one();
                self.wait_turn(st, tid)
            }
        }
    }

    fn wait_turn<'a>(
        &'a self,
        mut st: std::sync::MutexGuard<'a, State>,
        tid: usize,
    ) -> std::sync::MutexGuard<'a, State> {
        loop {
            if st.abort.is_some() {
                drop(st);
                std::panic::resume_unwind(Box::new(SchedAbort));
            }
            if st.current == Some(tid) {
                return st;
            }
            st = self.cvs[tid].wait(st).unwrap_or_else(|e| e.into_inner());
        }
    }

    fn wake_all(&self, _st: &State) {
        for cv in &self.cvs {
            cv.notify_all();
        }
        self.done.notify_all();
    }

    /// Called by every simulated thread before it does anything.
    pub fn thread_start(&self, tid: usize) {
        let st = self.lock();
        let _st = self.wait_turn(st, tid);
    }

    /// Called by the main thread once all simulated threads have been spawned.
    pub fn start(&self) {
        let mut st = self.lock();
        st.started = true;
        match Self::pick(&mut st, None) {
            Some(n) => {
                st.current = Some(n);
                self.cvs[n].notify_one();
            }
            None => {
                self.done.notify_all();
            }
        }
    }

    /// Blocks the main thread until every simulated thread has finished or the run was
    /// aborted.
    pub fn wait_done(&self) {
        let mut st = self.lock();
        loop {
            if st.abort.is_some() || st.status.iter().all(|s| *s == Status::Finished) {
                return;
            }
            st = self.done.wait(st).unwrap_or_else(|e| e.into_inner());
        }
    }

    pub fn switch_point(&self, tid: usize, site: &'static str) {
        let mut st = self.lock();
        if st.abort.is_some() {
            drop(st);
            std::panic::resume_unwind(Box::new(SchedAbort));
        }
        st.steps += 1;
        st.progress_epoch += 1;
        st.trace.u64(tid as u64);
        st.trace.str(site);
        st.parked_site[tid] = site;
        // coverage: thread `tid` passes `site` while others are parked at theirs
        let mut in_sync_other = false;
        for u in 0..st.n {
            if u != tid && st.status[u] != Status::Finished {
                let x = st.parked_site[u];
                if x != "start" {
                    st.pairs.insert((x, site));
                }
                if x.starts_with("sync.") && x != "sync.begin" {
                    in_sync_other = true;
                }
            }
        }
        if in_sync_other {
            st.parked_in_sync_steps += 1;
        }
        if st.steps > st.budget {
            st.abort = Some(Abort::Livelock(format!(
                "step budget {} exhausted; T{} at {}",
                st.budget, tid, site
            )));
            self.wake_all(&st);
            drop(st);
            std::panic::resume_unwind(Box::new(SchedAbort));
        }
        let _st = self.hand_off(st, tid);
    }

    pub fn lock_enter(&self, tid: usize, lock: &'static str) {
        let mut st = self.lock();
        loop {
            if st.abort.is_some() {
                drop(st);
                std::panic::resume_unwind(Box::new(SchedAbort));
            }
            match st.lock_owner.get(lock) {
                None => {
                    st.lock_owner.insert(lock, tid);
                    st.status[tid] = Status::Runnable;
                    return;
                }
                Some(o) if *o == tid => {
                    // re-entrant acquisition would be a real self-deadlock
                    st.abort = Some(Abort::Deadlock(format!(
                        "T{} re-acquires the {} lock it already owns",
                        tid, lock
                    )));
                    self.wake_all(&st);
                    drop(st);
                    std::panic::resume_unwind(Box::new(SchedAbort));
                }
                Some(_) => {
                    st.status[tid] = Status::BlockedLock(lock);
                    st.lock_blocks += 1;
                    st.trace.u64(1000 + tid as u64);
                    st = self.hand_off(st, tid);
                }
            }
        }
    }

    pub fn lock_exit(&self, tid: usize, lock: &'static str) {
        let mut st = self.lock();
        if st.lock_owner.get(lock) == Some(&tid) {
            st.lock_owner.remove(lock);
        }
        st.progress_epoch += 1;
        for t in 0..st.n {
            if st.status[t] == Status::BlockedLock(lock) {
                st.status[t] = Status::Runnable;
            }
        }
    }

    pub fn map_probe(&self, tid: usize, is_locked: &dyn Fn() -> bool) {
        loop {
            if !is_locked() {
                let mut st = self.lock();
                st.status[tid] = Status::Runnable;
                return;
            }
            let mut st = self.lock();
            if st.abort.is_some() {
                drop(st);
                std::panic::resume_unwind(Box::new(SchedAbort));
            }
            st.status[tid] = Status::BlockedMap(st.progress_epoch);
            st.map_blocks += 1;
            st.trace.u64(2000 + tid as u64);
            let _st = self.hand_off(st, tid);
        }
    }

    /// The thread has finished its program (or unwound).
    pub fn finish(&self, tid: usize) {
        let mut st = self.lock();
        st.status[tid] = Status::Finished;
        st.progress_epoch += 1;
        // release modelled locks it might still own (only after an unwind)
        let owned: Vec<&'static str> = st
            .lock_owner
            .iter()
            .filter(|(_, o)| **o == tid)
            .map(|(l, _)| *l)
            .collect();
        for l in owned {
            st.lock_owner.remove(l);
            for t in 0..st.n {
                if st.status[t] == Status::BlockedLock(l) {
                    st.status[t] = Status::Runnable;
                }
            }
        }
        if st.abort.is_some() {
            self.done.notify_all();
            return;
        }
        if st.status.iter().all(|s| *s == Status::Finished) {
            st.current = None;
            self.done.notify_all();
            return;
        }
        match Self::pick(&mut st, Some(tid)) {
            Some(n) => {
                st.current = Some(n);
                self.cvs[n].notify_one();
            }
            None => {
                let who: Vec<String> = (0..st.n)
                    .map(|t| format!("T{}:{:?}@{}", t, st.status[t], st.parked_site[t]))
                    .collect();
                st.abort = Some(Abort::Deadlock(format!(
                    "no runnable thread after T{} finished at step {}: {}",
                    tid,
                    st.steps,
                    who.join(" ")
                )));
                self.wake_all(&st);
            }
        }
    }

    pub fn steps(&self) -> usize {
        self.lock().steps
    }

    /// Faults (buggify outcomes) are only injected before the fault horizon.
    pub fn faults_allowed(&self) -> bool {
        let st = self.lock();
        st.steps < st.fair_after
    }

    pub fn aborted(&self) -> bool {
        self.lock().abort.is_some()
    }

    pub fn report(&self) -> SchedReport {
        let st = self.lock();
        SchedReport {
            schedule: st.recorded.clone(),
            steps: st.steps,
            abort: st.abort.as_ref().map(|a| match a {
                Abort::Deadlock(m) | Abort::Livelock(m) => m.clone(),
            }),
            abort_kind: st.abort.as_ref().map(|a| match a {
                Abort::Deadlock(_) => "deadlock",
                Abort::Livelock(_) => "livelock",
            }),
            trace_hash: st.trace.0,
            pairs: st
                .pairs
                .iter()
                .map(|(a, b)| (a.to_string(), b.to_string()))
                .collect(),
            preemptions: st.preemptions,
            starved_steps: st.starved_steps,
            parked_in_sync_steps: st.parked_in_sync_steps,
            map_blocks: st.map_blocks,
            lock_blocks: st.lock_blocks,
        }
    }
}
