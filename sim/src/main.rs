//! mmsim — deterministic simulator for mini-moka (see /verif/DESIGN.md).
//!
//!   mmsim batch  --pop <population> --prop <Cxx> --seed <n> --from <a> --to <b>
//!   mmsim replay <trace.json> [--prop <Cxx>]
//!   mmsim gen    --pop <population> --seed <n> --run <r>
//!
//! Exit codes: 0 ok, 1 violation found (replay), 2 harness error.

mod gen;
mod hooks;
mod lin;
mod model;
mod ops;
mod policy;
mod prng;
mod report;
mod sched;
mod seq;
mod sut;
mod thr;
mod types;

use std::collections::{BTreeMap, BTreeSet};
use std::io::Write;

use ops::{Engine, Trace};
use report::RunReport;

fn arg<'a>(args: &'a [String], name: &str) -> Option<&'a str> {
    args.iter()
        .position(|a| a == name)
        .and_then(|i| args.get(i + 1))
        .map(|s| s.as_str())
}

/// Runs a trace; for thr/burst also returns the trace completed with the schedule that
/// was actually taken (so that it replays without any PRNG).
pub fn run_trace_full(trace: &Trace) -> (RunReport, Trace) {
    match trace.engine {
        Engine::Thr | Engine::Burst => {
            let (rep, schedule) = thr::run_thr(trace);
            let mut t = trace.clone();
            if t.schedule.is_empty() {
                t.schedule = schedule;
            }
            (rep, t)
        }
        _ => (run_trace(trace), trace.clone()),
    }
}

pub fn run_trace(trace: &Trace) -> RunReport {
    match trace.engine {
        Engine::Seq => {
            seq::run_seq(
                trace,
                &BTreeSet::new(),
                &seq::SeqOpts {
                    oracles: true,
                    want_final: false,
                    no_hooks: false,
                },
            )
            .report
        }
        Engine::Pair => seq::run_pair(trace),
        Engine::Thr | Engine::Burst => thr::run_thr(trace).0,
    }
}

/// The non-triviality rule of each property, evaluated on the measured flags of a run.
fn nontrivial(prop: &str, r: &RunReport) -> bool {
    let f = |k: &str| r.flags.get(k).copied().unwrap_or(0);
    match prop {
        "C01" => f("c01_nontrivial_lookups") > 0,
        "C02" => f("c02_overlap") > 0 && f("preemptions_inside_op") > 0,
        "C03" => f("c03_removal_then_mustsee") > 0 || f("c03_fits_inserts") > 0 || f("c03_refill_checked") > 0,
        "C04" => f("c04_at_capacity") > 0 || f("write_channel_full") > 0,
        "C05" => f("c05_dead_lookup_seen_before") > 0,
        "C06" => f("c06_dead_after_observation") > 0,
        "C07" => f("c07_nontrivial") > 0,
        "C08" => f("c08_two_incarnations") > 0 || f("c08_removed_with_queue") > 0 || r.probes.contains_key("admit.victim_skipped") || f("relaxed_after_callback_panic") > 0 || f("c12_evictions") > 0 || r.probes.contains_key("sketch.reset"),
        "C09" => f("write_channel_full") > 0 || f("parked_in_sync_steps") > 0 || r.ops > 400,
        "C10" => f("c10_checks_after_removal") > 0,
        "C11" => f("c11_dropped_with_queue") > 0 || f("c10_checks_after_removal") > 0,
        "C12" => f("c12_evictions") > 0 || f("c12_applied_order_pairs") > 0,
        "C13" => f("c13_no_room_inserts") > 0,
        "C15" => f("c15_nontrivial") > 0,
        "C16" => f("iterations") > 0 || f("c16_iter_with_writer_step") > 0,
        _ => true,
    }
}

fn trace_hash(t: &Trace) -> u64 {
    let mut t2 = t.clone();
    t2.origin = None;
    let s = serde_json::to_string(&t2).unwrap();
    let mut h = prng::Fnv::default();
    h.str(&s);
    h.0
}

#[derive(serde::Serialize, Default)]
struct Summary {
    evaluations: u64,
    nontrivial_hashes: Vec<String>,
    flags_sum: BTreeMap<String, u64>,
    flags_runs: BTreeMap<String, u64>,
    probes: BTreeMap<String, u64>,
    faults: BTreeMap<String, u64>,
    steps: u64,
    ops: u64,
    sim_time_ns: u128,
    fault_free_runs: u64,
    fault_injecting_runs: u64,
    other_violations: BTreeMap<String, u64>,
    own_violations: u64,
    distinct_states: Vec<String>,
    distinct_schedules: Vec<String>,
    pairs: BTreeSet<String>,
    samples: Vec<serde_json::Value>,
    config_classes: BTreeMap<String, u64>,
    /// (run, trace_hash, state_hash) of every run, only with --hashes
    hashes: Vec<(u64, String, String)>,
}

fn main() {
    let args: Vec<String> = std::env::args().collect();
    if args.len() < 2 {
        eprintln!("usage: mmsim batch|replay|gen ...");
        std::process::exit(2);
    }
    // Library panics are caught and judged by the harness; keep stderr quiet unless asked.
    if std::env::var("MMSIM_PANIC_MSGS").is_err() {
        std::panic::set_hook(Box::new(|_| {}));
    }
    match args[1].as_str() {
        "miri" => {
            // mmsim miri <population> <seed> <from> <to>: run the programs freely (baton off)
            let pop = args.get(2).map(|s| s.as_str()).unwrap_or("thr-mixed").to_string();
            let seed: u64 = args.get(3).and_then(|s| s.parse().ok()).unwrap_or(7);
            let from: u64 = args.get(4).and_then(|s| s.parse().ok()).unwrap_or(0);
            let to: u64 = args.get(5).and_then(|s| s.parse().ok()).unwrap_or(1);
            let mut bad = 0;
            for run in from..to {
                let t = generate(&pop, seed, run);
                let problems = if matches!(t.engine, Engine::Seq | Engine::Pair) {
                    thr::run_free_seq(&t)
                } else {
                    thr::run_free(&t)
                };
                for p in &problems {
                    println!("MIRI-SCENARIO {} {} {}: {}", pop, seed, run, p);
                    bad += 1;
                }
            }
            println!("miri scenarios {}..{} of {} done, {} problems", from, to, pop, bad);
            std::process::exit(if bad > 0 { 1 } else { 0 });
        }
        "inert" => {
            // mmsim inert <population> <seed> <from> <to>: every fault-free sequential history
            // is executed with and without the hooks object installed; the results of all
            // operations and the final physical state must be identical.
            let pop = args.get(2).map(|s| s.as_str()).unwrap_or("seq-mixed").to_string();
            let seed: u64 = args.get(3).and_then(|s| s.parse().ok()).unwrap_or(1);
            let from: u64 = args.get(4).and_then(|s| s.parse().ok()).unwrap_or(0);
            let to: u64 = args.get(5).and_then(|s| s.parse().ok()).unwrap_or(1000);
            let (mut compared, mut differ) = (0u64, 0u64);
            for run in from..to {
                let t = generate(&pop, seed, run);
                if t.engine != Engine::Seq
                    || t.threads.iter().flatten().any(|o| o.f.any())
                    || t.callback_faults != Default::default()
                {
                    continue;
                }
                let a = seq::run_seq(&t, &BTreeSet::new(), &seq::SeqOpts { oracles: false, want_final: true, no_hooks: false });
                let b = seq::run_seq(&t, &BTreeSet::new(), &seq::SeqOpts { oracles: false, want_final: true, no_hooks: true });
                compared += 1;
                if a.report.state_hash != b.report.state_hash || a.results != b.results || a.final_norm != b.final_norm {
                    differ += 1;
                    println!("INERT-DIFF {} {} {}", pop, seed, run);
                }
            }
            println!("inert: {} fault-free histories of {} compared with/without hooks, {} differ", compared, pop, differ);
            std::process::exit(if differ > 0 { 1 } else { 0 });
        }
        "gen" => {
            let pop = gen_pop(&args);
            let seed: u64 = arg(&args, "--seed").unwrap_or("1").parse().unwrap();
            let run: u64 = arg(&args, "--run").unwrap_or("0").parse().unwrap();
            let t = generate(&pop, seed, run);
            println!("{}", serde_json::to_string_pretty(&t).unwrap());
        }
        "replay" => {
            let path = &args[2];
            let prop = arg(&args, "--prop");
            let text = match std::fs::read_to_string(path) {
                Ok(t) => t,
                Err(e) => {
                    eprintln!("cannot read {}: {}", path, e);
                    std::process::exit(2);
                }
            };
            let v: serde_json::Value = match serde_json::from_str(&text) {
                Ok(v) => v,
                Err(e) => {
                    eprintln!("bad replay file: {}", e);
                    std::process::exit(2);
                }
            };
            // a replay file is either a bare trace or {trace:..., ...}
            let tv = if v.get("trace").is_some() { v["trace"].clone() } else { v };
            let trace: Trace = match serde_json::from_value(tv) {
                Ok(t) => t,
                Err(e) => {
                    eprintln!("bad trace: {}", e);
                    std::process::exit(2);
                }
            };
            println!("S 0");
            std::io::stdout().flush().ok();
            let rep = run_trace(&trace);
            let mut hit = false;
            for v in &rep.violations {
                let own = prop.map(|p| v.prop() == p).unwrap_or(true);
                if own {
                    hit = true;
                }
                println!("V {}", serde_json::to_string(v).unwrap());
            }
            println!(
                "R {}",
                serde_json::to_string(&serde_json::json!({
                    "trace_hash": format!("{:016x}", rep.trace_hash),
                    "state_hash": format!("{:016x}", rep.state_hash),
                    "probes": rep.probes,
                    "keyed": rep.keyed,
                    "faults": rep.faults,
                    "flags": rep.flags,
                    "steps": rep.steps,
                }))
                .unwrap()
            );
            println!("D 0");
            std::process::exit(if hit { 1 } else { 0 });
        }
        "batch" => {
            let pop = gen_pop(&args);
            let prop = arg(&args, "--prop").unwrap_or("").to_string();
            let seed: u64 = arg(&args, "--seed").unwrap_or("1").parse().unwrap();
            let from: u64 = arg(&args, "--from").unwrap_or("0").parse().unwrap();
            let to: u64 = arg(&args, "--to").unwrap_or("100").parse().unwrap();
            let want_hashes = args.iter().any(|a| a == "--hashes");
            let max_report: usize = arg(&args, "--max-report").unwrap_or("40").parse().unwrap();
            let stdout = std::io::stdout();
            let mut sum = Summary::default();
            let mut nontrivial_set: BTreeSet<u64> = BTreeSet::new();
            let mut states: BTreeSet<u64> = BTreeSet::new();
            let mut scheds: BTreeSet<u64> = BTreeSet::new();
            let mut reported = 0usize;
            let mut sample_short: Option<(usize, Trace)> = None;
            let mut sample_long: Option<(usize, Trace)> = None;
            let mut sample_fault: Option<Trace> = None;
            for run in from..to {
                {
                    let mut o = stdout.lock();
                    writeln!(o, "S {}", run).ok();
                    o.flush().ok();
                }
                let trace0 = generate(&pop, seed, run);
                let (rep, trace) = run_trace_full(&trace0);
                sum.evaluations += 1;
                sum.steps += rep.steps;
                sum.ops += rep.ops;
                sum.sim_time_ns += rep.sim_time_ns as u128;
                if rep.fault_injecting {
                    sum.fault_injecting_runs += 1;
                } else {
                    sum.fault_free_runs += 1;
                }
                for (k, v) in &rep.flags {
                    *sum.flags_sum.entry(k.clone()).or_insert(0) += v;
                    *sum.flags_runs.entry(k.clone()).or_insert(0) += 1;
                }
                for (k, v) in &rep.probes {
                    *sum.probes.entry(k.clone()).or_insert(0) += v;
                }
                for (k, v) in &rep.faults {
                    *sum.faults.entry(k.clone()).or_insert(0) += v;
                }
                for s in &rep.states {
                    states.insert(*s);
                }
                for p in &rep.pairs {
                    sum.pairs.insert(p.clone());
                }
                *sum.config_classes.entry(trace.config.class()).or_insert(0) += 1;
                let th = trace_hash(&trace);
                if matches!(trace.engine, Engine::Thr | Engine::Burst) {
                    scheds.insert(rep.trace_hash);
                }
                if want_hashes {
                    sum.hashes.push((
                        run,
                        format!("{:016x}", rep.trace_hash ^ th),
                        format!("{:016x}", rep.state_hash),
                    ));
                }
                let nt = nontrivial(&prop, &rep);
                if nt {
                    // distinct by (config class, op trace, schedule trace)
                    nontrivial_set.insert(th ^ rep.trace_hash.rotate_left(17));
                    let n = trace.n_ops();
                    if sample_short.as_ref().map(|(m, _)| n < *m).unwrap_or(true) {
                        sample_short = Some((n, trace.clone()));
                    }
                    if sample_long.as_ref().map(|(m, _)| n > *m).unwrap_or(true) && n <= 80 {
                        sample_long = Some((n, trace.clone()));
                    }
                    if rep.fault_injecting && sample_fault.is_none() && n <= 60 {
                        sample_fault = Some(trace.clone());
                    }
                }
                let mut own: Vec<&ops::Violation> = Vec::new();
                for v in &rep.violations {
                    if v.prop() == prop {
                        own.push(v);
                    } else {
                        *sum
                            .other_violations
                            .entry(format!("{}|{:?}", v.rule, trace.config.kind))
                            .or_insert(0) += 1;
                    }
                }
                if !own.is_empty() {
                    sum.own_violations += 1;
                    if reported < max_report {
                        reported += 1;
                        let mut o = stdout.lock();
                        writeln!(
                            o,
                            "V {}",
                            serde_json::to_string(&serde_json::json!({
                                "run": run,
                                "violations": own,
                                "probes": rep.probes,
                                "trace": trace,
                            }))
                            .unwrap()
                        )
                        .ok();
                    } else {
                        let mut o = stdout.lock();
                        writeln!(
                            o,
                            "W {}",
                            serde_json::to_string(&serde_json::json!({
                                "run": run,
                                "rules": own.iter().map(|v| v.rule.clone()).collect::<BTreeSet<_>>(),
                            }))
                            .unwrap()
                        )
                        .ok();
                    }
                }
                {
                    let mut o = stdout.lock();
                    writeln!(o, "D {}", run).ok();
                }
            }
            sum.nontrivial_hashes = nontrivial_set.iter().map(|h| format!("{:016x}", h)).collect();
            sum.distinct_states = states.iter().map(|h| format!("{:016x}", h)).collect();
            sum.distinct_schedules = scheds.iter().map(|h| format!("{:016x}", h)).collect();
            for t in [sample_short.map(|x| x.1), sample_long.map(|x| x.1), sample_fault]
                .into_iter()
                .flatten()
            {
                sum.samples.push(serde_json::to_value(&t).unwrap());
            }
            println!("SUMMARY {}", serde_json::to_string(&sum).unwrap());
        }
        other => {
            eprintln!("unknown command {}", other);
            std::process::exit(2);
        }
    }
}

/// Population selector: seq populations by name, thr populations handled by `thr`.
fn gen_pop(args: &[String]) -> String {
    arg(args, "--pop").unwrap_or("seq-mixed").to_string()
}

fn generate(pop: &str, seed: u64, run: u64) -> Trace {
    if let Some(p) = gen::Pop::parse(pop) {
        gen::generate(p, seed, run)
    } else if let Some(t) = thr::generate(pop, seed, run) {
        t
    } else {
        eprintln!("unknown population {}", pop);
        std::process::exit(2);
    }
}
