//! Per-key linearizability checker (Wing-Gong search with memoisation) against a
//! sequential register with expiry-agnostic "may observe nothing" reads.
//!
//! Events are stamped with the scheduler's global step counter (never simulated time,
//! under which operations would tie). Histories are tiny (<= 24 ops per key).

use std::collections::HashSet;

#[derive(Clone, Debug, PartialEq, Eq)]
pub enum LinOp {
    /// insert(k, v); `clock` = [lo, hi] readings the insert may have used.
    Write { vid: u32, clock: (u64, u64) },
    /// invalidate(k)
    Remove,
    /// invalidate_all(): removes the value iff its insert read a clock < this one's.
    RemoveAll { clock: (u64, u64) },
    /// get / contains_key / iterator yield: observed value id (None = nothing).
    /// `any_value`: contains_key saw "something" without knowing which value.
    /// `clock_hi`: the latest clock reading the lookup may have used.
    Read { got: Option<u32>, any_value: bool, clock_hi: u64 },
}

#[derive(Clone, Debug)]
pub struct LinEvent {
    pub op: LinOp,
    pub invoke: u64,
    pub ret: u64,
    pub tid: usize,
    pub idx: usize,
}

#[derive(Clone, Copy, Debug, PartialEq, Eq, Hash)]
struct Reg {
    /// current value id (0 = nothing) and the clock interval of its insert
    vid: u32,
    lo: u64,
    hi: u64,
    /// clock interval of the latest invalidate_all linearized so far (0,0 = none). The
    /// properties define its targets by clock *reading* ("inserted at a strictly earlier
    /// clock reading"), so a write that read its clock before such a call but took effect
    /// after it (it blocked on a shard lock in between) is hidden as well.
    va_lo: u64,
    va_hi: u64,
}

/// Expiry configuration for the strict register: a strict read may still observe nothing
/// when the current value may have expired by the read's latest possible clock reading
/// (written at reading >= lo, so certainly alive only before lo + d).
#[derive(Clone, Copy, Debug, Default)]
pub struct Expiry {
    pub ttl: Option<u64>,
    pub tti: Option<u64>,
}

/// Returns Ok(()) if the history of one key is linearizable; Err(description) otherwise.
/// `strict`: reads must observe the register exactly (no spurious "nothing"), except that
/// a value that may have expired (see `Expiry`) may be missing.
pub fn check_key(events: &[LinEvent], strict: bool) -> Result<(), String> {
    check_key_exp(events, strict, Expiry::default())
}

pub fn check_key_exp(events: &[LinEvent], strict: bool, exp: Expiry) -> Result<(), String> {
    let n = events.len();
    if n == 0 {
        return Ok(());
    }
    if n > 30 {
        return Ok(()); // bounded; generators never exceed this
    }
    let mut memo: HashSet<(u32, Reg)> = HashSet::new();
    let init = Reg { vid: 0, lo: 0, hi: 0, va_lo: 0, va_hi: 0 };
    if search(events, 0u32, init, strict, exp, &mut memo) {
        Ok(())
    } else {
        let mut desc = Vec::new();
        let mut evs: Vec<&LinEvent> = events.iter().collect();
        evs.sort_by_key(|e| (e.invoke, e.ret));
        for e in evs {
            desc.push(format!("T{}#{}[{}..{}]{:?}", e.tid, e.idx, e.invoke, e.ret, e.op));
        }
        Err(desc.join(" "))
    }
}

fn search(ev: &[LinEvent], done: u32, reg: Reg, strict: bool, exp: Expiry, memo: &mut HashSet<(u32, Reg)>) -> bool {
    let n = ev.len();
    if done.count_ones() as usize == n {
        return true;
    }
    if !memo.insert((done, reg)) {
        return false;
    }
    // minimal return among pending ops: an op can be linearized next only if it was
    // invoked before every pending op returned
    let mut min_ret = u64::MAX;
    for (i, e) in ev.iter().enumerate() {
        if done & (1 << i) == 0 && e.ret < min_ret {
            min_ret = e.ret;
        }
    }
    for (i, e) in ev.iter().enumerate() {
        if done & (1 << i) != 0 || e.invoke > min_ret {
            continue;
        }
        let nd = done | (1 << i);
        match &e.op {
            LinOp::Write { vid, clock } => {
                let may_hidden = clock.0 < reg.va_hi;
                let may_visible = clock.1 >= reg.va_lo;
                if may_visible
                    && search(ev, nd, Reg { vid: *vid, lo: clock.0, hi: clock.1, ..reg }, strict, exp, memo)
                {
                    return true;
                }
                if may_hidden && search(ev, nd, Reg { vid: 0, lo: 0, hi: 0, ..reg }, strict, exp, memo) {
                    return true;
                }
            }
            LinOp::Remove => {
                if search(ev, nd, Reg { vid: 0, lo: 0, hi: 0, ..reg }, strict, exp, memo) {
                    return true;
                }
            }
            LinOp::RemoveAll { clock } => {
                let reg = Reg {
                    va_lo: reg.va_lo.max(clock.0),
                    va_hi: reg.va_hi.max(clock.1),
                    ..reg
                };
                if reg.vid == 0 {
                    if search(ev, nd, reg, strict, exp, memo) {
                        return true;
                    }
                } else {
                    // removed iff t_insert < t_call; both are intervals
                    let may_remove = reg.lo < clock.1;
                    let may_keep = reg.hi >= clock.0;
                    if may_remove && search(ev, nd, Reg { vid: 0, lo: 0, hi: 0, ..reg }, strict, exp, memo) {
                        return true;
                    }
                    if may_keep && search(ev, nd, reg, strict, exp, memo) {
                        return true;
                    }
                }
            }
            LinOp::Read { got, any_value, clock_hi } => {
                let may_have_expired = reg.vid != 0
                    && (exp.ttl.map(|d| *clock_hi >= reg.lo.saturating_add(d)).unwrap_or(false)
                        || exp.tti.map(|d| *clock_hi >= reg.lo.saturating_add(d)).unwrap_or(false));
                let ok = match got {
                    Some(v) => reg.vid == *v,
                    None => {
                        if *any_value {
                            reg.vid != 0
                        } else {
                            !strict || reg.vid == 0 || may_have_expired
                        }
                    }
                };
                if ok && search(ev, nd, reg, strict, exp, memo) {
                    return true;
                }
            }
        }
    }
    false
}

#[cfg(test)]
mod tests {
    use super::*;
    fn ev(op: LinOp, invoke: u64, ret: u64) -> LinEvent {
        LinEvent { op, invoke, ret, tid: 0, idx: 0 }
    }
    #[test]
    fn stale_read_is_rejected() {
        let h = vec![
            ev(LinOp::Write { vid: 1, clock: (0, 0) }, 0, 1),
            ev(LinOp::Write { vid: 2, clock: (0, 0) }, 2, 3),
            ev(LinOp::Read { got: Some(1), any_value: false, clock_hi: 0 }, 4, 5),
        ];
        assert!(check_key(&h, false).is_err());
    }
    #[test]
    fn concurrent_read_may_see_either() {
        let h = vec![
            ev(LinOp::Write { vid: 1, clock: (0, 0) }, 0, 1),
            ev(LinOp::Write { vid: 2, clock: (0, 0) }, 2, 6),
            ev(LinOp::Read { got: Some(1), any_value: false, clock_hi: 0 }, 3, 4),
        ];
        assert!(check_key(&h, false).is_ok());
    }
}
