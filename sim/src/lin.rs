//! Per-key linearizability checker (placeholder).
