//! Engine `seq`: one simulated client drives one cache through a history; the simulated
//! clock, explicit sync() placements and per-op faults decide when maintenance runs.
//! Engine `pair` (C15) runs the same history with and without extra observation calls.

use std::collections::{BTreeMap, BTreeSet};
use std::panic::{catch_unwind, AssertUnwindSafe};
use std::sync::Arc;
use std::time::Duration;

use mini_moka::verif::{Snapshot, VerifClock};

use crate::hooks::{Shared, SimHooks};
use crate::model::Model;
use crate::ops::{Kind, Op, Trace, Violation};
use crate::policy::Policy;
use crate::prng::Fnv;
use crate::report::RunReport;
use crate::sut::Sut;
use crate::types::{Registry, INJECTED_PANIC};

#[derive(Clone, Debug, PartialEq, Eq)]
pub enum StepResult {
    Unit,
    Got(Option<u32>),
    Has(bool),
    Items(Vec<(u16, u32)>),
    /// `Op::IterSteps`: one element per `Next` of the script (None = exhausted), followed by
    /// whatever the final drain yielded
    Stepped(Vec<Option<(u16, u32)>>),
    Panicked,
    Skipped,
}

pub fn payload_str(p: &Box<dyn std::any::Any + Send>) -> String {
    if let Some(s) = p.downcast_ref::<&str>() {
        s.to_string()
    } else if let Some(s) = p.downcast_ref::<String>() {
        s.clone()
    } else {
        "<non-string panic payload>".to_string()
    }
}

/// Snapshot without addresses, for comparisons and hashing.
#[derive(Clone, Debug, PartialEq, Eq)]
pub struct NormSnap {
    pub entry_count: u64,
    pub weighted_size: u64,
    /// (key, value, weight, last_accessed, last_modified)
    pub entries: Vec<(u64, u64, u32, Option<u64>, Option<u64>)>,
    pub probation: Vec<u64>,
    pub write_order: Vec<u64>,
    pub sketch_enabled: bool,
    pub estimates: Vec<u8>,
}

pub fn normalize(s: &Snapshot, estimates: Vec<u8>) -> NormSnap {
    NormSnap {
        entry_count: s.entry_count,
        weighted_size: s.weighted_size,
        entries: s
            .entries
            .iter()
            .map(|e| (e.key, e.value, e.weight, e.last_accessed, e.last_modified))
            .collect(),
        probation: s.probation.iter().map(|n| n.key).collect(),
        write_order: s.write_order.iter().map(|n| n.key).collect(),
        sketch_enabled: s.sketch_enabled,
        estimates,
    }
}

pub fn hash_snap(h: &mut Fnv, s: &Snapshot) {
    h.u64(s.entry_count);
    h.u64(s.weighted_size);
    for e in &s.entries {
        h.u64(e.key);
        h.u64(e.value);
        h.u64(e.weight as u64);
        h.u64(e.last_accessed.unwrap_or(u64::MAX));
        h.u64(e.last_modified.unwrap_or(u64::MAX));
        h.u64(e.admitted as u64 * 2 + e.dirty as u64);
    }
    h.u64(0xAAAA);
    for n in &s.probation {
        h.u64(n.key);
    }
    h.u64(0xBBBB);
    for n in &s.write_order {
        h.u64(n.key);
    }
    h.u64(s.read_queue_len as u64);
    h.u64(s.write_queue_len as u64);
    h.u64(s.sketch_enabled as u64);
}

pub struct SeqOutcome {
    pub report: RunReport,
    pub results: Vec<StepResult>,
    pub final_norm: Option<NormSnap>,
}

pub const KEY_UNIVERSE_MAX: u16 = 8;
/// A key outside every generated universe, used to normalise the final state.
const SENTINEL: u16 = 60000;

fn exec(sut: &mut Sut, op: &Op, reg: &Arc<Registry>, clock: &VerifClock) -> StepResult {
    match op {
        Op::Insert { k, vid, w } => {
            sut.insert(*k, *vid, *w, reg);
            StepResult::Unit
        }
        Op::Get { k } => StepResult::Got(sut.get(*k)),
        Op::Contains { k } => StepResult::Has(sut.contains(*k)),
        Op::Iter => {
            let mut v = sut.iter();
            v.sort();
            StepResult::Items(v)
        }
        Op::Invalidate { k } => {
            sut.invalidate(*k);
            StepResult::Unit
        }
        Op::InvalidateAll => {
            sut.invalidate_all();
            StepResult::Unit
        }
        Op::InvalidateIf { p } => {
            sut.invalidate_if(*p, reg);
            StepResult::Unit
        }
        Op::Sync => {
            sut.sync();
            StepResult::Unit
        }
        Op::Advance { ns } => {
            clock.advance(Duration::from_nanos(*ns));
            StepResult::Unit
        }
        Op::IterSteps { script } => StepResult::Stepped(sut.iter_stepped(script, clock)),
        _ => StepResult::Skipped,
    }
}

/// True when every operation of the program is followed by an explicit sync().
fn every_op_synced(ops: &[crate::ops::OpRec], skip: &BTreeSet<usize>) -> bool {
    let live: Vec<&Op> = ops
        .iter()
        .enumerate()
        .filter(|(i, _)| !skip.contains(i))
        .map(|(_, o)| &o.op)
        .collect();
    let mut i = 0;
    while i < live.len() {
        if *live[i] == Op::Sync {
            i += 1;
            continue;
        }
        if i + 1 >= live.len() || *live[i + 1] != Op::Sync {
            return false;
        }
        i += 2;
    }
    true
}

pub struct SeqOpts {
    /// Oracles on (false for the runs of a metamorphic pair, which are only compared).
    pub oracles: bool,
    /// Finish with a normalising housekeeping step and return the final state.
    pub want_final: bool,
    /// Do not install the hooks object (selftest: a guard-on build behaves as shipped).
    pub no_hooks: bool,
}

pub fn run_seq(trace: &Trace, skip: &BTreeSet<usize>, opts: &SeqOpts) -> SeqOutcome {
    let cfg = &trace.config;
    let ops = &trace.threads[0];
    let reg = Registry::new();
    let clock = VerifClock::new();
    let base = clock.now();
    let shared = Arc::new(Shared::default());
    let hooks = SimHooks::new(0, Arc::clone(&shared), None);
    if !opts.no_hooks {
        mini_moka::verif::install(Some(hooks.clone()));
    }

    let mut rep = RunReport::default();
    let mut results = Vec::with_capacity(ops.len());
    let mut out: Vec<Violation> = Vec::new();
    crate::sut::reset_variants();
    let mut sut = Sut::build(cfg, &reg, &clock);
    if let Some(n) = trace.callback_faults.clone_panic_at {
        reg.arm_clone_panic(n as i64);
        rep.fault_injecting = true;
    }
    if let Some(n) = trace.callback_faults.weigh_panic_at {
        reg.arm_weigh_panic(n as i64);
        rep.fault_injecting = true;
    }
    if let Some(n) = trace.callback_faults.pred_panic_at {
        reg.arm_pred_panic(n as i64);
        rep.fault_injecting = true;
    }
    crate::types::arm_key_panics(
        trace.callback_faults.hash_panic_at.map(|n| n as i64).unwrap_or(-1),
        trace.callback_faults.eq_panic_at.map(|n| n as i64).unwrap_or(-1),
    );
    if trace.callback_faults.hash_panic_at.is_some() || trace.callback_faults.eq_panic_at.is_some() {
        rep.fault_injecting = true;
    }
    let unsync = cfg.kind == Kind::Unsync;
    let mut model = Model::new(cfg);
    let synced_shape = every_op_synced(ops, skip);
    let no_read_drop = !ops.iter().any(|o| o.f.read_drop);
    let pol_enabled =
        opts.oracles && trace.callback_faults == Default::default() && (unsync || (synced_shape && no_read_drop));
    let mut pol = Policy::new(cfg, pol_enabled);
    let mut relaxed = false;
    let mut dead_run = false;
    let mut thash = Fnv::default();
    let mut shash = Fnv::default();
    let mut states: BTreeSet<u64> = BTreeSet::new();
    let mut last_snap = sut.snapshot(base, cfg.weigher);
    // C04 (unsync): excess created by a weight-growing update may persist until the
    // next housekeeping operation returns.
    let mut gets_issued: u64 = 0;
    let universe_small = ops.iter().all(|o| o.op.key().map(|k| k < KEY_UNIVERSE_MAX).unwrap_or(true));
    let mut growth_excess_pending = false;
    let mut excess_prev = 0u64;
    // C03 "fits" rule bookkeeping
    struct Fits {
        k: u16,
        vid: u32,
        pre_live: BTreeMap<u16, u32>,
        step: usize,
    }
    let mut pending_fits: Option<Fits> = None;
    // sync policy mode: the op whose effect the next Sync applies
    let mut pol_pending = false;
    let mut removal_seen = false;
    let mut sim_time = 0u64;
    let mut queued_nontrivial = false;

    for (i, rec) in ops.iter().enumerate() {
        if skip.contains(&i) {
            results.push(StepResult::Skipped);
            continue;
        }
        if dead_run {
            results.push(StepResult::Skipped);
            continue;
        }
        let op = &rec.op;
        thash.str(op.name());
        thash.u64(op.key().unwrap_or(0) as u64);
        if rec.f.any() {
            rep.fault_injecting = true;
        }
        hooks.begin_op(rec.f);

        // --- pre-step information -------------------------------------------------
        let pre_quiescent = unsync || (last_snap.read_queue_len == 0 && last_snap.write_queue_len == 0);
        let mut est_pre: BTreeMap<u16, u8> = BTreeMap::new();
        if let Op::Insert { k, .. } = op {
            if pol.enabled || opts.oracles {
                est_pre.insert(*k, sut.estimate(*k));
                for e in &last_snap.entries {
                    est_pre.insert(e.key as u16, sut.estimate(e.key as u16));
                }
            }
        }
        // C03 fits rule: new key, pre-quiescent
        let mut fits_candidate: Option<Fits> = None;
        if opts.oracles && !relaxed {
            if let (Op::Insert { k, vid, w }, Some(cap)) = (op, cfg.cap) {
                let resident = last_snap.entries.iter().any(|e| e.key as u16 == *k);
                if pre_quiescent && !resident {
                    let pw = if cfg.weigher { *w as u64 } else { 1 };
                    // live residents: not certainly dead / invalidated in the model's eyes
                    let mut live = BTreeMap::new();
                    let mut live_w = 0u64;
                    for e in &last_snap.entries {
                        let kk = e.key as u16;
                        let is_live = match model.entries.get(&kk) {
                            Some(me) => me.vid as u64 == e.value && !model.dead_at(me, model.now),
                            None => false,
                        };
                        if is_live {
                            live.insert(kk, e.value as u32);
                            live_w += e.weight as u64;
                        }
                    }
                    if live_w + pw <= cap {
                        fits_candidate = Some(Fits {
                            k: *k,
                            vid: *vid,
                            pre_live: live,
                            step: i,
                        });
                    }
                }
            }
        }
        let pre_weight_over = cfg
            .cap
            .map(|c| last_snap.entries.iter().map(|e| e.weight as u64).sum::<u64>() > c)
            .unwrap_or(false);
        // C07 precision (call-local): visible residents before an invalidation call
        let is_inval = matches!(op, Op::Invalidate { .. } | Op::InvalidateAll | Op::InvalidateIf { .. });
        let pre_visible: BTreeMap<u16, u32> = if is_inval && opts.oracles {
            last_snap
                .entries
                .iter()
                .filter(|e| match model.entries.get(&(e.key as u16)) {
                    Some(me) => me.vid as u64 == e.value && model.surely_alive_at(me, model.now),
                    None => false,
                })
                .map(|e| (e.key as u16, e.value as u32))
                .collect()
        } else {
            BTreeMap::new()
        };

        // entries that are already expired / invalidated before this operation starts
        // (what a maintenance step performed by this operation must release, C11)
        let dead_before: BTreeMap<u16, u32> = if opts.oracles {
            last_snap
                .entries
                .iter()
                .filter(|e| {
                    let kk = e.key as u16;
                    match model.entries.get(&kk) {
                        Some(me) => me.vid as u64 == e.value && model.dead_at(me, model.now),
                        None => matches!(
                            model.gone.get(&kk),
                            Some(crate::model::Gone::InvalidatedAll)
                                | Some(crate::model::Gone::InvalidatedByKey)
                                | Some(crate::model::Gone::InvalidatedIf)
                        ),
                    }
                })
                .map(|e| (e.key as u16, e.value as u32))
                .collect()
        } else {
            BTreeMap::new()
        };

        // --- execute ----------------------------------------------------------------
        crate::types::set_in_op(true);
        let value_cb_before = reg.injected();
        let pred_before = reg.pred_injected();
        let res = catch_unwind(AssertUnwindSafe(|| exec(&mut sut, op, &reg, &clock)));
        crate::types::set_in_op(false);
        let st = hooks.end_op();
        let result = match res {
            Ok(r) => r,
            Err(p) => {
                let msg = payload_str(&p);
                if msg.contains(INJECTED_PANIC) {
                    rep.fault("callback_panic", 1);
                    pol.enabled = false;
                    match op {
                        // An insert into the concurrent cache that unwound from the weigher
                        // (called before the map is touched) or from `V::clone` (called inside
                        // the map closure, on the caller's thread, no maintenance involved):
                        // the cache stays fully usable and every oracle stays on; only this
                        // key is judged leniently (nothing / the failed value / what the
                        // model holds -- never an older value) until it is written again.
                        Op::Insert { k, vid, .. } if !unsync && !relaxed && reg.injected() > value_cb_before => {
                            model.taint(*k, *vid);
                            rep.flag("panicked_insert_judged", 1);
                        }
                        // unsync: `invalidate_entries_if` evaluates the predicate while it
                        // only collects keys; a predicate that panics leaves the cache as it
                        // was. The call is judged as a no-op and every oracle stays on.
                        Op::InvalidateIf { .. } if unsync && !relaxed && reg.pred_injected() > pred_before => {
                            rep.flag("panicked_predicate_judged", 1);
                        }
                        _ => relaxed = true,
                    }
                } else if relaxed {
                    // After one of its own callbacks has panicked inside a call, the caller
                    // holds a cache in an unspecified (but memory-safe) state -- a poisoned
                    // lock on `sync`, half-updated bookkeeping on `unsync`. Later panics
                    // are attributed to the caller; only memory safety (crash, sanitizer)
                    // and exactly-once drop are still judged for this run.
                    dead_run = true;
                    rep.flag("panic_after_injected_panic", 1);
                } else if msg.contains(crate::hooks::RETRY_LIVELOCK) {
                    rep.viol(
                        "C09.livelock",
                        format!(
                            "{} (op #{}) kept retrying to queue its write op more than {} times: the write queue is full and maintenance no longer runs",
                            op.name(), i, crate::hooks::RETRY_LIMIT
                        ),
                        i,
                        op.key(),
                    );
                    dead_run = true;
                } else {
                    rep.viol(
                        "C08.internal-panic",
                        format!("{} panicked: {}", op.name(), msg),
                        i,
                        op.key(),
                    );
                    if msg.contains("assertion `left == right` failed") {
                        // the library's own check that the published counters did not
                        // change while a maintenance run worked on its private copy
                        rep.viol(
                            "C10.counters-changed-under-maintenance",
                            format!("{}: {}", op.name(), msg.replace('\n', " ")),
                            i,
                            op.key(),
                        );
                    }
                    dead_run = true;
                }
                StepResult::Panicked
            }
        };
        if let Op::Advance { ns } = op {
            sim_time = sim_time.saturating_add(*ns);
        }
        if let Op::IterSteps { script } = op {
            for s in script {
                if let crate::ops::IterStep::Advance { ns } = s {
                    sim_time = sim_time.saturating_add(*ns);
                }
            }
        }
        results.push(result.clone());
        if dead_run {
            continue;
        }
        rep.ops += 1;
        if st.read_dropped {
            rep.flag("read_records_dropped", 1);
        }

        // --- reference model ----------------------------------------------------------
        if opts.oracles && !relaxed && result != StepResult::Panicked {
            // A housekeeper pass inside a `get` runs *after* the lookup has been decided
            // (and before its own read record is queued); inside a write it runs after the
            // map update. Lookups are therefore judged before the pass is applied.
            let pass_inside = !unsync && st.hk_synced > 0;
            if pass_inside && !matches!(op, Op::Get { .. }) {
                model.maintenance_pass();
            }
            if pass_inside {
                rep.flag("housekeeper_passes", st.hk_synced as u64);
            }
            let queued_before = !unsync && (last_snap.read_queue_len + last_snap.write_queue_len) > 0;
            match (op, &result) {
                (Op::Insert { k, vid, w }, _) => {
                    if let Some(me) = model.entries.get(k) {
                        let pw = if cfg.weigher { *w } else { 1 };
                        if pw != me.weight {
                            removal_seen = true; // weight-changing update
                        }
                    }
                    model.insert(i, *k, *vid, *w);
                }
                (Op::Get { k }, StepResult::Got(g)) => {
                    if queued_before {
                        queued_nontrivial = true;
                    }
                    let before = model.pending_reads.len();
                    model.judge_lookup(i, "get", *k, g.is_some(), *g, !st.read_dropped, &mut out);
                    if pass_inside {
                        let own = if model.pending_reads.len() > before { model.pending_reads.pop() } else { None };
                        model.maintenance_pass();
                        if let Some(r) = own {
                            model.pending_reads.push(r);
                        }
                    }
                }
                (Op::Contains { k }, StepResult::Has(b)) => {
                    if queued_before {
                        queued_nontrivial = true;
                    }
                    model.judge_lookup(i, "contains", *k, *b, None, false, &mut out);
                }
                (Op::Iter, StepResult::Items(items)) => {
                    model.judge_iter(i, items, &mut out);
                    rep.flag("iterations", 1);
                }
                (Op::IterSteps { script }, StepResult::Stepped(ys)) => {
                    model.judge_iter_stepped(i, script, ys, &mut out);
                    rep.flag("iterations", 1);
                    rep.flag("stepped_iterations", 1);
                }
                (Op::Invalidate { k }, _) => model.invalidate(i, *k),
                (Op::InvalidateAll, _) => model.invalidate_all(i),
                (Op::InvalidateIf { p }, _) => model.invalidate_if(i, *p),
                (Op::Sync, _) => model.maintenance_pass(),
                (Op::Advance { ns }, _) => model.advance(*ns),
                _ => {}
            }
        }

        // --- post-step snapshot and quiescent checks ----------------------------------
        let snap = match catch_unwind(AssertUnwindSafe(|| sut.snapshot(base, cfg.weigher))) {
            Ok(s) => s,
            Err(p) => {
                let msg = payload_str(&p);
                // a caller callback that panicked inside a maintenance run leaves the deques
                // lock poisoned; that is the caller's doing (see `relaxed` above)
                if !(relaxed && msg.contains("lock poisoned")) {
                    rep.viol("C08.internal-panic", format!("snapshot after {} panicked: {}", op.name(), msg), i, None);
                    dead_run = true;
                }
                continue;
            }
        };
        let queues_empty = snap.read_queue_len == 0 && snap.write_queue_len == 0;
        let quiescent = unsync || (*op == Op::Sync && queues_empty);
        let housekeeping = if unsync {
            matches!(op, Op::Get { .. } | Op::Insert { .. } | Op::Invalidate { .. } | Op::Contains { .. })
        } else {
            *op == Op::Sync
        };

        // derived cause probe (known finding F12): a dead entry is still held *behind* a live
        // one in a deque whose purge scan stops at the first live node
        if opts.oracles && !relaxed && quiescent {
            let is_dead = |k: u64, v: u64| match model.entries.get(&(k as u16)) {
                Some(me) => me.vid as u64 != v || model.dead_at(me, model.now),
                None => true,
            };
            let val_of: BTreeMap<u64, u64> = snap.entries.iter().map(|e| (e.key, e.value)).collect();
            for deque in [&snap.probation, &snap.write_order] {
                let mut live_seen = false;
                for n in deque.iter() {
                    if let Some(v) = val_of.get(&n.key) {
                        if is_dead(n.key, *v) {
                            if live_seen {
                                *shared.probes.lock().unwrap().entry("cause.dead_behind_live").or_insert(0) += 1;
                            }
                        } else {
                            live_seen = true;
                        }
                    }
                }
            }
        }

        // C12 (applied order, sync cache): at a quiescent point the residents sit in the
        // access-order deque in the order of their last applied use
        if opts.oracles && !relaxed && !unsync && quiescent {
            let (n, bad) = crate::hooks::check_applied_order(&shared, &snap);
            if n > 0 {
                rep.flag("c12_applied_order_pairs", n);
            }
            if let Some(msg) = bad {
                rep.viol("C12.applied-order", format!("after {}: {}", op.name(), msg), i, None);
            }
        }

        // C08 structural walker
        if !relaxed {
            for e in &snap.errors {
                rep.viol("C08.walker", format!("after {}: {}", op.name(), e), i, None);
            }
            if queues_empty && quiescent {
                for e in &snap.strict_errors {
                    rep.viol("C08.walker-strict", format!("after {}: {}", op.name(), e), i, None);
                }
            }
        }

        // Timestamps (hook H5): the write time the cache keeps for the current value of a key
        // is the reading at which it was written; the access time lies between the last access
        // the cache must have honoured and the last access that took place. A wrong timestamp
        // is a wrong deadline: later = C05 / C06 (observable too long), earlier = C03 (hidden
        // or purged while alive).
        if opts.oracles && !relaxed && cfg.has_expiry() {
            for e in &snap.entries {
                let kk = e.key as u16;
                if model.tainted.contains_key(&kk) {
                    continue;
                }
                if let Some(me) = model.entries.get(&kk) {
                    if me.vid as u64 != e.value {
                        continue;
                    }
                    rep.flag("timestamp_checks", 1);
                    if let (Some(_), Some(lm)) = (cfg.ttl, e.last_modified) {
                        if lm > me.t_mod {
                            rep.viol("C05.write-time-late", format!("after {}: key {} (value {}) was written at reading {} but the cache keeps {} as its write time (its ttl deadline is late)", op.name(), kk, me.vid, me.t_mod, lm), i, Some(kk));
                        } else if lm < me.t_mod {
                            rep.viol("C03.write-time-early", format!("after {}: key {} (value {}) was written at reading {} but the cache keeps {} as its write time (it expires early)", op.name(), kk, me.vid, me.t_mod, lm), i, Some(kk));
                        }
                    }
                    if let (Some(_), Some(la)) = (cfg.tti, e.last_accessed) {
                        if la > me.t_acc_true {
                            rep.viol("C06.access-time-late", format!("after {}: key {} (value {}) was last accessed at reading {} but the cache keeps {} as its access time (its idle deadline is late)", op.name(), kk, me.vid, me.t_acc_true, la), i, Some(kk));
                        } else if la < me.t_acc_guar {
                            rep.viol("C03.access-time-early", format!("after {}: key {} (value {}): the cache keeps {} as its access time although an access at reading {} has been applied (it expires early)", op.name(), kk, me.vid, la, me.t_acc_guar), i, Some(kk));
                        }
                    }
                }
            }
        }

        if opts.oracles && !relaxed {
            let phys_w: u64 = snap.entries.iter().map(|e| e.weight as u64).sum();
            let phys_n = snap.entries.len() as u64;
            if quiescent {
                let mut sh = Fnv::default();
                hash_snap(&mut sh, &snap);
                states.insert(sh.0);
                // C10: counters equal the physical content
                if removal_seen || model.stats.removal_causes > 0 {
                    rep.flag("c10_checks_after_removal", 1);
                }
                rep.flag("c10_checks", 1);
                if snap.entry_count != phys_n {
                    rep.viol(
                        "C10.entry-count",
                        format!(
                            "after {}: entry_count()={} but the cache physically holds {} entries",
                            op.name(), snap.entry_count, phys_n
                        ),
                        i,
                        op.key(),
                    );
                }
                if snap.weighted_size != phys_w {
                    rep.viol(
                        "C10.weighted-size",
                        format!(
                            "after {}: weighted_size()={} but the resident weights sum to {}",
                            op.name(), snap.weighted_size, phys_w
                        ),
                        i,
                        op.key(),
                    );
                }
                if !cfg.has_expiry() {
                    let items = sut.iter();
                    let it_n = items.len() as u64;
                    if it_n != snap.entry_count {
                        rep.viol(
                            "C10.count-vs-iter",
                            format!(
                                "after {}: no expiry configured, entry_count()={} but iteration yields {} entries",
                                op.name(), snap.entry_count, it_n
                            ),
                            i,
                            op.key(),
                        );
                    }
                }
                // C04: capacity bound
                if let Some(cap) = cfg.cap {
                    if phys_w >= cap {
                        rep.flag("c04_at_capacity", 1);
                    }
                    if unsync {
                        if housekeeping {
                            let growing_update = match op {
                                Op::Insert { k, w, .. } => last_snap
                                    .entries
                                    .iter()
                                    .find(|e| e.key as u16 == *k)
                                    .map(|e| (if cfg.weigher { *w } else { 1 }) > e.weight)
                                    .unwrap_or(false),
                                _ => false,
                            };
                            // The excess of a weight-growing update is removed by "following
                            // operations": one eviction batch (100 entries) per operation, so
                            // it may take several of them; each must make progress.
                            let progressing = growth_excess_pending && phys_w < excess_prev;
                            growth_excess_pending = growing_update || (phys_w > cap && progressing);
                            excess_prev = phys_w;
                        }
                        if phys_w > cap {
                            if growth_excess_pending {
                                rep.flag("c04_sanctioned_transient", 1);
                            } else {
                                rep.viol(
                                    "C04.over-capacity",
                                    format!(
                                        "after {}: resident weight {} > max_capacity {} with no pending weight-growth excess",
                                        op.name(), phys_w, cap
                                    ),
                                    i,
                                    op.key(),
                                );
                            }
                        }
                    } else if phys_w > cap {
                        rep.viol(
                            "C04.over-capacity",
                            format!(
                                "after sync() with empty queues: resident weight {} > max_capacity {}",
                                phys_w, cap
                            ),
                            i,
                            None,
                        );
                    }
                }
                // C11: live objects equal resident entries
                let (lk, lv) = (reg.live_keys(), reg.live_vals());
                rep.flag("c11_quiescent_checks", 1);
                if lv != phys_n as i64 {
                    rep.viol(
                        "C11.live-values",
                        format!(
                            "after {}: {} value objects are alive but {} entries are resident",
                            op.name(), lv, phys_n
                        ),
                        i,
                        None,
                    );
                }
                if lk != phys_n as i64 {
                    rep.viol(
                        "C11.live-keys",
                        format!(
                            "after {}: {} key objects are alive but {} entries are resident",
                            op.name(), lk, phys_n
                        ),
                        i,
                        None,
                    );
                }
                // (bounded to universes smaller than one purge batch: 100 entries on unsync)
                if housekeeping && last_snap.entries.len() < 90 {
                    for e in &snap.entries {
                        let kk = e.key as u16;
                        if dead_before.get(&kk) == Some(&(e.value as u32)) {
                            rep.viol(
                                "C11.dead-entry-retained",
                                format!(
                                    "after {} (maintenance done, t={}): key {} value {} was already expired or invalidated before the call but is still held",
                                    op.name(), model.now, kk, e.value
                                ),
                                i,
                                Some(kk),
                            );
                        }
                    }
                }
            }

            // C03 fits rule
            if let Some(f) = pending_fits.take() {
                // sync kind: evaluated at the Sync that directly follows the insert
                if *op == Op::Sync && queues_empty {
                    check_fits(&f.pre_live, f.k, f.vid, f.step, &snap, &model, &mut rep);
                }
            }
            if let Some(f) = fits_candidate {
                rep.flag("c03_fits_inserts", 1);
                if unsync {
                    check_fits(&f.pre_live, f.k, f.vid, f.step, &snap, &model, &mut rep);
                } else {
                    pending_fits = Some(f);
                }
            }

            // C07 precision, call-local
            if is_inval && (unsync || queues_empty || true) {
                let can_judge = if unsync { !pre_weight_over } else { model.cap_safe };
                if can_judge {
                    for (k, vid) in &pre_visible {
                        let targeted = model.last_inval_removed.contains(k);
                        let still = snap
                            .entries
                            .iter()
                            .any(|e| e.key as u16 == *k && e.value as u32 == *vid);
                        if !targeted && !still {
                            rep.viol(
                                "C07.collateral-removal",
                                format!(
                                    "{} removed key {} (value {}), which it does not target and which was live",
                                    op.name(), k, vid
                                ),
                                i,
                                Some(*k),
                            );
                        }
                    }
                }
            }

            // C14's "only get records" clause, monitored here (credited to C13): no estimate
            // can exceed the number of get calls issued so far
            if quiescent && universe_small {
                if let Op::Get { .. } = op {
                    gets_issued += 1;
                }
                let bound = gets_issued.min(15) as u8;
                for k in 0..KEY_UNIVERSE_MAX {
                    let e = sut.estimate(k);
                    if e > bound {
                        rep.viol(
                            "C13.estimator-fed-by-non-get",
                            format!(
                                "after {}: the popularity estimate of key {} is {} although only {} get calls were issued so far",
                                op.name(), k, e, gets_issued
                            ),
                            i,
                            Some(k),
                        );
                        break;
                    }
                }
                rep.flag("c13_estimator_bound_checks", 1);
            } else if let Op::Get { .. } = op {
                gets_issued += 1;
            }

            // C12/C13 exact policy model (bounded to universes smaller than one batch)
            if pol.enabled && (last_snap.entries.len() >= 90 || snap.entries.len() >= 90) {
                pol.desync();
                pol.enabled = false;
            }
            // a stepped iteration during which invalidate_all was called (concurrent cache): the
            // exact model does not follow the script; it resynchronises from the next snapshot
            if pol.enabled && !unsync {
                if let Op::IterSteps { script } = op {
                    if script.iter().any(|st| matches!(st, crate::ops::IterStep::InvalidateAll)) {
                        pol.desync();
                    }
                }
            }
            if pol.enabled {
                let estf = |k: u16| est_pre.get(&k).copied().unwrap_or(0);
                if unsync {
                    pol.apply(op, model.now, &estf);
                    let mns = |k: u16| match model.entries.get(&k) {
                        Some(me) => model.dead_at(me, model.now),
                        None => true,
                    };
                    pol.compare(i, &snap, &mns, &mut out);
                } else if *op == Op::Sync {
                    if pol_pending {
                        pol_pending = false;
                    } else {
                        pol.apply(op, model.now, &estf);
                    }
                    if queues_empty {
                        let mns = |k: u16| match model.entries.get(&k) {
                            Some(me) => model.dead_at(me, model.now),
                            None => true,
                        };
                        pol.compare(i, &snap, &mns, &mut out);
                    } else {
                        pol.desync();
                    }
                } else {
                    if !pre_quiescent {
                        pol.desync();
                    }
                    pol.apply(op, model.now, &estf);
                    pol_pending = true;
                }
            }

            // latch maintenance
            if quiescent && !model.cap_safe {
                let resident: BTreeMap<u16, u32> =
                    snap.entries.iter().map(|e| (e.key as u16, e.value as u32)).collect();
                model.reconcile(&resident);
            }
        }
        last_snap = snap;
    }

    // --- end of history ---------------------------------------------------------------
    let mut final_norm = None;
    if opts.want_final && !dead_run {
        let r = catch_unwind(AssertUnwindSafe(|| {
            if unsync {
                let _ = sut.get(SENTINEL);
            } else {
                sut.sync();
                sut.sync();
            }
            let s = sut.snapshot(base, cfg.weigher);
            let mut est = Vec::new();
            for k in 0..KEY_UNIVERSE_MAX {
                est.push(sut.estimate(k));
            }
            est.push(sut.estimate(SENTINEL));
            normalize(&s, est)
        }));
        if let Ok(n) = r {
            final_norm = Some(n);
        }
    }
    hash_snap(&mut shash, &last_snap);
    for r in &results {
        match r {
            StepResult::Got(g) => shash.u64(g.map(|x| x as u64 + 1).unwrap_or(0)),
            StepResult::Has(b) => shash.u64(*b as u64),
            StepResult::Items(v) => {
                for (k, x) in v {
                    shash.u64(*k as u64);
                    shash.u64(*x as u64);
                }
            }
            StepResult::Stepped(v) => {
                // the order of the yields is the map's; hash them as a multiset
                let mut ys: Vec<(u16, u32)> = v.iter().flatten().copied().collect();
                ys.sort();
                for (k, x) in ys {
                    shash.u64(*&k as u64);
                    shash.u64(*&x as u64);
                }
            }
            _ => shash.u64(7),
        }
    }

    // C11: drop the cache with whatever is still queued; everything must be released once
    let queued_at_drop = last_snap.read_queue_len + last_snap.write_queue_len;
    let dropped = catch_unwind(AssertUnwindSafe(move || drop(sut)));
    mini_moka::verif::install(None);
    if let Err(p) = dropped {
        rep.viol(
            "C08.internal-panic",
            format!("dropping the cache panicked: {}", payload_str(&p)),
            ops.len(),
            None,
        );
    } else {
        let dd = reg.double_drops();
        if !dd.is_empty() {
            rep.viol(
                "C11.double-drop",
                format!("{} objects were dropped more than once (ids {:?})", dd.len(), &dd[..dd.len().min(5)]),
                ops.len(),
                None,
            );
            rep.viol(
                "C08.double-free",
                format!("{} key/value objects were dropped more than once", dd.len()),
                ops.len(),
                None,
            );
        }
        let leaked = reg.leaked();
        if !leaked.is_empty() && !dead_run {
            rep.viol(
                "C11.leak-at-drop",
                format!(
                    "{} of {} objects were never dropped after the last handle was dropped (first: {:?})",
                    leaked.len(),
                    reg.created(),
                    &leaked[..leaked.len().min(5)]
                ),
                ops.len(),
                None,
            );
        }
        if queued_at_drop > 0 {
            rep.flag("c11_dropped_with_queue", 1);
        }
    }

    rep.violations.extend(out);
    rep.steps = rep.ops;
    rep.trace_hash = thash.0;
    rep.state_hash = shash.0;
    rep.sim_time_ns = sim_time;
    rep.states = states.into_iter().collect();
    for (k, v) in shared.probes.lock().unwrap().iter() {
        rep.probes.insert(k.to_string(), *v);
    }
    for (k, v) in shared.faults_fired.lock().unwrap().iter() {
        rep.fault(k, *v);
    }
    {
        let mut keys: BTreeSet<u16> = BTreeSet::new();
        for o in ops {
            if let Some(k) = o.op.key() {
                keys.insert(k);
            }
        }
        let keys: Vec<u16> = keys.into_iter().collect();
        rep.keyed = crate::hooks::resolve_keyed(&shared, cfg.hasher, &keys);
    }
    // measured non-triviality flags
    let ms = &model.stats;
    rep.flag("c01_nontrivial_lookups", ms.lookups_nontrivial_c01);
    rep.flag("c01_lookups_with_queue", queued_nontrivial as u64);
    rep.flag("lookups", ms.lookups);
    rep.flag("must_see_checks", ms.must_see_checked);
    rep.flag("c03_removal_then_mustsee", ((ms.removal_causes > 0 || removal_seen) && ms.must_see_checked > 0) as u64);
    rep.flag("c05_dead_lookup_seen_before", ms.ttl_dead_lookups_seen_before);
    rep.flag("c05_boundary_lookups", ms.ttl_boundary_lookups);
    rep.flag("c06_dead_lookup_seen_before", ms.tti_dead_lookups_seen_before);
    rep.flag("c06_dead_after_observation", ms.tti_dead_after_observation);
    rep.flag("c06_boundary_lookups", ms.tti_boundary_lookups);
    rep.flag("c06_gap_lookups", ms.gap_lookups);
    rep.flag(
        "c07_nontrivial",
        (ms.inval_removed > 0 && ms.inval_then_lookup_removed > 0 && ms.inval_then_lookup_survivor > 0) as u64,
    );
    rep.flag("c07_reinserts", ms.reinserts_after_inval);
    rep.flag("latch_cleared", ms.latch_cleared);
    rep.flag("latch_rearmed", ms.latch_rearmed);
    let ps = &pol.stats;
    rep.flag("c12_evictions", ps.evictions);
    rep.flag("c12_evictions_multi", ps.evictions_multi);
    rep.flag("c12_excess_evictions", ps.excess_evictions);
    rep.flag("c12_hit_on_lru_before_eviction", ps.hit_on_lru_before_eviction);
    rep.flag("c13_no_room_inserts", ps.no_room_inserts);
    rep.flag("c13_admitted", ps.admitted);
    rep.flag("c13_admitted_multi_victim", ps.admitted_multi_victim);
    rep.flag("c13_rejected_equal", ps.rejected_equal);
    rep.flag("c13_rejected_no_prefix", ps.rejected_no_prefix);
    rep.flag("policy_steps_checked", ps.steps_checked);
    rep.flag("policy_resyncs", ps.resyncs);
    if relaxed {
        rep.flag("relaxed_after_callback_panic", 1);
    }
    SeqOutcome {
        report: rep,
        results,
        final_norm,
    }
}

fn check_fits(
    pre_live: &BTreeMap<u16, u32>,
    k: u16,
    vid: u32,
    step: usize,
    snap: &Snapshot,
    model: &Model,
    rep: &mut RunReport,
) {
    // the newcomer must be resident unless it was meanwhile replaced / invalidated / expired
    let still_current = model
        .entries
        .get(&k)
        .map(|e| e.vid == vid && model.surely_alive_at(e, model.now))
        .unwrap_or(false);
    if still_current && !snap.entries.iter().any(|e| e.key as u16 == k && e.value as u32 == vid) {
        rep.viol(
            "C03.fitting-insert-refused",
            format!(
                "insert of new key {} (value {}) fitted in the remaining capacity computed from the physical residents {:?}, but the entry is not resident afterwards",
                k, vid, pre_live
            ),
            step,
            Some(k),
        );
    }
    for (rk, rv) in pre_live {
        let alive = model
            .entries
            .get(rk)
            .map(|e| e.vid == *rv && model.surely_alive_at(e, model.now))
            .unwrap_or(false);
        if alive && !snap.entries.iter().any(|e| e.key as u16 == *rk && e.value as u32 == *rv) {
            rep.viol(
                "C03.fitting-insert-evicted",
                format!(
                    "insert of new key {} fitted in the remaining capacity, yet live resident {} (value {}) disappeared",
                    k, rk, rv
                ),
                step,
                Some(*rk),
            );
        }
    }
}

/// Engine `pair` (C15): history h' = trace.threads[0]; h = h' without the `extra` calls.
pub fn run_pair(trace: &Trace) -> RunReport {
    let skip: BTreeSet<usize> = trace.extra.iter().copied().collect();
    let opts = SeqOpts {
        no_hooks: false,
        oracles: false,
        want_final: true,
    };
    let a = run_seq(trace, &skip, &opts);
    let b = run_seq(trace, &BTreeSet::new(), &opts);
    let mut rep = b.report.clone();
    rep.violations.extend(a.report.violations.iter().cloned());
    // results of every common operation must agree
    let ops = &trace.threads[0];
    let mut nontrivial = false;
    let mut state_created = false;
    let mut extra_after_state = false;
    for (i, o) in ops.iter().enumerate() {
        if skip.contains(&i) {
            if state_created {
                extra_after_state = true;
            }
            continue;
        }
        match o.op {
            Op::Insert { .. } | Op::Get { .. } => state_created = true,
            _ => {}
        }
        if extra_after_state && matches!(o.op, Op::Insert { .. } | Op::Get { .. } | Op::Iter | Op::Contains { .. }) {
            nontrivial = true;
        }
        if a.results[i] != b.results[i] {
            rep.viol(
                "C15.result-differs",
                format!(
                    "op #{} {:?} returned {:?} without the extra contains_key/iter calls {:?} and {:?} with them",
                    i, o.op, a.results[i], trace.extra, b.results[i]
                ),
                i,
                o.op.key(),
            );
            break;
        }
    }
    match (&a.final_norm, &b.final_norm) {
        (Some(x), Some(y)) => {
            if x != y {
                let what = if x.entries != y.entries {
                    "resident entries / timestamps"
                } else if x.probation != y.probation || x.write_order != y.write_order {
                    "recency (deque) order"
                } else if x.estimates != y.estimates {
                    "popularity estimates"
                } else {
                    "counters"
                };
                rep.viol(
                    "C15.state-differs",
                    format!(
                        "final state differs in {} between the run without and with the extra calls at {:?}: {:?} vs {:?}",
                        what, trace.extra, x, y
                    ),
                    ops.len(),
                    None,
                );
            }
        }
        _ => {}
    }
    rep.flag("c15_nontrivial", nontrivial as u64);
    rep.flag("c15_extra_calls", trace.extra.len() as u64);
    let mut h = Fnv(a.report.state_hash);
    h.u64(b.report.state_hash);
    rep.state_hash = h.0;
    rep
}
