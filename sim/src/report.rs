//! What one simulated run reports back.

use std::collections::BTreeMap;

use serde::Serialize;

use crate::ops::Violation;

#[derive(Clone, Debug, Default, Serialize)]
pub struct RunReport {
    pub violations: Vec<Violation>,
    /// Operations executed (seq) / scheduler steps (thr).
    pub steps: u64,
    pub ops: u64,
    pub trace_hash: u64,
    pub state_hash: u64,
    pub sim_time_ns: u64,
    /// Reach probes hit in this run.
    pub probes: BTreeMap<String, u64>,
    /// Fault kinds that actually fired.
    pub faults: BTreeMap<String, u64>,
    /// Per-property non-triviality counters and other measured flags.
    pub flags: BTreeMap<String, u64>,
    /// thr: preemption site pairs covered ("parked>passed").
    pub pairs: Vec<String>,
    /// Distinct quiescent states seen (hashes).
    pub states: Vec<u64>,
    pub fault_injecting: bool,
    /// Keyed loss probes: probe id -> keys (resolved from the hash argument).
    pub keyed: BTreeMap<String, Vec<u16>>,
}

impl RunReport {
    pub fn flag(&mut self, name: &str, n: u64) {
        if n > 0 {
            *self.flags.entry(name.to_string()).or_insert(0) += n;
        }
    }
    pub fn fault(&mut self, name: &str, n: u64) {
        if n > 0 {
            *self.faults.entry(name.to_string()).or_insert(0) += n;
        }
    }
    pub fn viol(&mut self, rule: &str, msg: String, step: usize, key: Option<u16>) {
        self.violations.push(Violation {
            rule: rule.to_string(),
            msg,
            step,
            key,
        });
    }
}
