"""Which populations each check runs, per tier, and the non-triviality rules (in words)."""

def seq(pop, n, **kw):
    d = {"pop": pop, "n": n}
    d.update(kw)
    return d

ASAN = {"ASAN_OPTIONS": "detect_leaks=0:abort_on_error=1:symbolize=0"}
PLANS = {
    "C01": {"quick": [seq("seq-mixed", 240000), seq("seq-inval", 120000), seq("seq-long", 3000), seq("seq-wide", 4000)],
            "thorough": [seq("seq-mixed", 3000000), seq("seq-inval", 1500000), seq("seq-expiry", 800000), seq("seq-long", 60000), seq("seq-wide", 60000)]},
    "C03": {"quick": [seq("seq-mixed", 240000), seq("seq-expiry", 120000), seq("seq-inval", 80000), seq("seq-long", 3000), seq("thr-mixed", 60000), seq("thr-strict", 40000), seq("seq-wide", 4000), seq("thr-warm", 40000), seq("thr-iter-mixed", 20000), seq("thr-inval", 20000), seq("thr-long", 15000)],
            "thorough": [seq("seq-mixed", 3000000), seq("seq-expiry", 1500000), seq("seq-inval", 1000000), seq("seq-long", 60000), seq("thr-mixed", 900000), seq("thr-strict", 600000), seq("seq-wide", 60000), seq("thr-warm", 600000), seq("thr-iter-mixed", 300000), seq("thr-inval", 300000), seq("thr-long", 225000)]},
    "C04": {"quick": [seq("seq-mixed", 240000), seq("seq-policy", 120000), seq("seq-long", 3000), seq("thr-mixed", 40000), seq("burst", 3000), seq("thr-warm", 30000), seq("seq-huge", 40000), seq("thr-long", 10000)],
            "thorough": [seq("seq-mixed", 3000000), seq("seq-policy", 1500000), seq("seq-long", 60000), seq("thr-mixed", 600000), seq("burst", 50000), seq("thr-warm", 450000), seq("seq-huge", 600000), seq("thr-long", 150000)]},
    "C05": {"quick": [seq("seq-expiry", 300000), seq("seq-mixed", 100000), seq("thr-expiry", 60000), seq("seq-wide", 4000), seq("thr-iter-mixed", 40000), seq("thr-warm", 20000)],
            "thorough": [seq("seq-expiry", 4000000), seq("seq-mixed", 1000000), seq("seq-long", 30000), seq("thr-expiry", 900000), seq("seq-wide", 60000), seq("thr-iter-mixed", 600000), seq("thr-warm", 300000)]},
    "C06": {"quick": [seq("seq-expiry", 300000), seq("seq-mixed", 100000), seq("thr-expiry", 60000), seq("seq-wide", 4000), seq("thr-iter-mixed", 40000), seq("thr-warm", 20000)],
            "thorough": [seq("seq-expiry", 4000000), seq("seq-mixed", 1000000), seq("seq-long", 30000), seq("thr-expiry", 900000), seq("seq-wide", 60000), seq("thr-iter-mixed", 600000), seq("thr-warm", 300000)]},
    "C07": {"quick": [seq("seq-inval", 300000), seq("seq-mixed", 100000), seq("thr-mixed", 80000), seq("thr-warm", 40000), seq("thr-iter-mixed", 30000), seq("thr-inval", 60000), seq("thr-long", 10000)],
            "thorough": [seq("seq-inval", 4000000), seq("seq-mixed", 1000000), seq("seq-long", 30000), seq("thr-mixed", 1200000), seq("thr-warm", 600000), seq("thr-iter-mixed", 450000), seq("thr-inval", 900000), seq("thr-long", 150000)]},
    "C10": {"quick": [seq("seq-mixed", 240000), seq("seq-inval", 100000), seq("seq-expiry", 60000), seq("seq-long", 3000), seq("thr-mixed", 60000), seq("seq-wide", 4000), seq("thr-warm", 40000), seq("thr-inval", 20000), seq("seq-huge", 40000), seq("burst", 1500), seq("thr-long", 10000)],
            "thorough": [seq("seq-mixed", 3000000), seq("seq-inval", 1000000), seq("seq-expiry", 1000000), seq("seq-long", 60000), seq("thr-mixed", 900000), seq("burst", 20000), seq("seq-wide", 60000), seq("thr-warm", 600000), seq("thr-inval", 300000), seq("seq-huge", 600000), seq("thr-long", 150000)]},
    "C11": {"quick": [seq("seq-mixed", 240000), seq("seq-inval", 100000), seq("seq-callback", 60000), seq("seq-long", 3000), seq("thr-mixed", 60000), seq("seq-wide", 3000), seq("thr-callback", 30000), seq("thr-warm", 40000), seq("thr-inval", 20000), seq("burst", 1500), seq("thr-long", 10000)],
            "thorough": [seq("seq-mixed", 3000000), seq("seq-inval", 1000000), seq("seq-callback", 600000), seq("seq-long", 60000), seq("thr-mixed", 900000), seq("burst", 20000), seq("seq-wide", 40000), seq("thr-callback", 400000), seq("thr-warm", 600000), seq("thr-inval", 300000), seq("thr-long", 150000)]},
    "C12": {"quick": [seq("seq-policy", 400000), seq("seq-mixed", 100000), seq("thr-warm", 80000), seq("thr-mixed", 60000), seq("thr-expiry", 30000), seq("thr-iter-mixed", 30000), seq("thr-long", 15000)],
            "thorough": [seq("seq-policy", 6000000), seq("seq-mixed", 1500000), seq("seq-long", 30000), seq("thr-warm", 600000), seq("thr-mixed", 600000), seq("thr-expiry", 300000), seq("thr-iter-mixed", 300000), seq("thr-long", 225000)]},
    "C13": {"quick": [seq("seq-policy", 400000)],
            "thorough": [seq("seq-policy", 6000000)]},
    "C15": {"quick": [seq("pair", 300000)],
            "thorough": [seq("pair", 4000000)]},
    "C16": {"quick": [seq("seq-mixed", 240000), seq("seq-expiry", 100000), seq("thr-iter", 100000), seq("thr-mixed", 40000), seq("seq-wide", 4000), seq("thr-iter-mixed", 80000), seq("thr-warm", 20000)],
            "thorough": [seq("seq-mixed", 3000000), seq("seq-expiry", 1000000), seq("thr-iter", 1500000), seq("thr-mixed", 600000), seq("seq-wide", 60000), seq("thr-iter-mixed", 1200000), seq("thr-warm", 300000)]},
    "C02": {"quick": [seq("thr-mixed", 160000), seq("thr-strict", 80000), seq("thr-expiry", 40000), seq("thr-sweep", 57600), seq("thr-warm", 60000), seq("thr-iter-mixed", 40000), seq("thr-inval", 60000), seq("thr-long", 30000)],
            "thorough": [seq("thr-mixed", 2400000), seq("thr-strict", 1200000), seq("thr-expiry", 600000), seq("thr-iter", 300000), seq("thr-sweep", 1152000), seq("thr-warm", 900000), seq("thr-iter-mixed", 600000), seq("thr-inval", 900000), seq("thr-long", 450000)]},
    "C09": {"quick": [seq("thr-mixed", 100000), seq("thr-iter", 30000), seq("burst", 5000), seq("seq-long", 4000), seq("thr-sweep", 19200), seq("thr-warm", 30000), seq("thr-iter-mixed", 30000), seq("thr-inval", 20000), seq("thr-long", 15000)],
            "thorough": [seq("thr-mixed", 1500000), seq("thr-iter", 400000), seq("burst", 80000), seq("seq-long", 60000), seq("thr-sweep", 384000), seq("thr-warm", 450000), seq("thr-iter-mixed", 450000), seq("thr-inval", 300000), seq("thr-long", 225000)]},
    "C08": {"quick": [seq("seq-mixed", 200000), seq("seq-long", 4000), seq("seq-callback", 60000), seq("seq-policy", 60000), seq("thr-mixed", 80000), seq("thr-iter", 30000), seq("burst", 2000), seq("seq-wide", 2000), seq("thr-callback", 40000), seq("thr-warm", 40000), seq("thr-iter-mixed", 30000), seq("thr-inval", 20000), seq("seq-huge", 40000), seq("thr-long", 15000)],
            "thorough": [seq("seq-mixed", 2000000), seq("seq-long", 60000), seq("seq-callback", 600000), seq("seq-policy", 600000), seq("thr-mixed", 1200000), seq("thr-iter", 400000), seq("burst", 40000), seq("seq-wide", 30000), seq("seq-mixed", 300000, build="asan", env=ASAN), seq("seq-long", 20000, build="asan", env=ASAN), seq("seq-callback", 100000, build="asan", env=ASAN), seq("thr-mixed", 200000, build="asan", env=ASAN), seq("thr-iter", 60000, build="asan", env=ASAN), seq("burst", 4000, build="asan", env=ASAN), {"kind": "miri", "pop": "thr-mixed", "seed": 7, "from": 0, "to": 24, "miri_seeds": 16}, {"kind": "miri", "pop": "thr-iter", "seed": 7, "from": 0, "to": 8, "miri_seeds": 16}, {"kind": "miri", "pop": "thr-warm", "seed": 7, "from": 0, "to": 16, "miri_seeds": 16}, {"kind": "miri", "pop": "thr-inval", "seed": 7, "from": 0, "to": 12, "miri_seeds": 16}, {"kind": "miri", "pop": "thr-iter-mixed", "seed": 7, "from": 0, "to": 12, "miri_seeds": 16}, {"kind": "miri", "pop": "thr-long", "seed": 7, "from": 0, "to": 8, "miri_seeds": 8, "jobs": 4}, {"kind": "miri", "pop": "seq-mixed", "seed": 7, "from": 0, "to": 160, "miri_seeds": 1, "jobs": 8}, {"kind": "miri", "pop": "seq-policy", "seed": 7, "from": 0, "to": 96, "miri_seeds": 1, "jobs": 8}, {"kind": "miri", "pop": "seq-callback", "seed": 7, "from": 0, "to": 48, "miri_seeds": 1, "jobs": 8}, seq("thr-callback", 600000), seq("thr-callback", 100000, build="asan", env=ASAN), seq("thr-warm", 600000), seq("thr-iter-mixed", 450000), seq("thr-inval", 300000), seq("seq-huge", 600000), seq("thr-long", 225000)]},
}

RULES = {
    "C01": "runs are generated from (VERIF_SEED, population, run index); distinct = hash of (config, op trace, schedule trace); non-trivial = the run contains a lookup of a key that was previously inserted and since then updated, invalidated, evicted or seen before (i.e. not a lookup of a never-written key)",
    "C02": "threads, programs, config and the scheduling policy are generated from (VERIF_SEED, population, run index); distinct = hash of (config, programs, schedule actually taken); non-trivial = at least two threads operated on one key with overlapping invoke/return intervals and at least one preemption happened inside an operation; the thr-sweep population enumerates, for each generated two-thread program, who starts, the step of the first preemption (0..23) and the length of the other thread's turn",
    "C09": "distinct = hash of (config, programs, schedule actually taken); non-trivial = the write channel was found full at least once, or a thread was parked at a switch point inside Inner::sync while another thread executed at least one step, or (seq-long) a single thread issued more un-synced operations than the write queue holds",
    "C03": "distinct = hash of (config, op trace, schedule); non-trivial = a removal cause (expiry, invalidation, rejection/eviction, weight-changing update) occurred before a MUST-SEE lookup, or the run contained an insert judged by the 'fits' rule, or a post-quiescence refill was checked",
    "C04": "distinct = hash of (config, op trace, schedule); non-trivial = resident weight reached max_capacity at a quiescent point at least once, or the write channel was found full",
    "C05": "distinct = hash of (config, op trace, schedule); non-trivial = a lookup at a reading >= t_mod + ttl of an entry that an earlier lookup in the same run had seen",
    "C06": "distinct = hash of (config, op trace, schedule); non-trivial = a lookup at a reading >= last access + tti of a previously seen entry with at least one get hit or contains_key/iter observation between its insert and that lookup",
    "C07": "distinct = hash of (config, op trace, schedule); non-trivial = an invalidation call removed at least one model entry and was followed by a lookup of a removed key and by a lookup of a surviving or re-inserted key",
    "C08": "distinct = hash of (config, op trace, schedule); non-trivial = a key had a deque node removed or two incarnations while records were queued, an eviction took place, a victim was skipped, or a caller callback panicked",
    "C10": "distinct = hash of (config, op trace, schedule); non-trivial = at least one removal cause occurred before a counters-vs-physical evaluation",
    "C11": "distinct = hash of (config, op trace, schedule); non-trivial = an entry was replaced/invalidated/evicted/expired before a live-object evaluation, or the cache was dropped with records still queued",
    "C12": "distinct = hash of (config, op trace, schedule); non-trivial = at least one capacity eviction happened at a step the exact LRU model checked, or (lagged / threaded runs of the concurrent cache) the access-order deque of at least two residents was compared with the order in which maintenance applied their last uses",
    "C13": "distinct = hash of (config, op trace); non-trivial = an insert of a new key that did not fit (admission decided by popularity)",
    "C15": "distinct = hash of (config, op trace incl. positions of the extra calls); non-trivial = at least one extra contains_key/iter call placed after state was created and before a later insert/get/iter/contains_key",
    "C16": "distinct = hash of (config, op trace, schedule); non-trivial = the run contained at least one iteration compared with the model (seq) / an iteration during which a writer step happened (thr)",
}

ALL_PROBES = ["admit.victim_skipped", "admit.victim_vanished", "evict.skip_dirty", "evict.skip_missing",
              "write.channel_full", "read.dropped", "hk.lost", "hk.synced", "sync.repeat"]

DETERMINISM_POPS = ["thr-long", "seq-huge", "thr-inval", "thr-warm", "thr-iter-mixed", "thr-callback", "thr-sweep", "seq-wide", "thr-mixed", "thr-strict", "thr-iter", "thr-expiry", "burst", "seq-mixed", "seq-expiry", "seq-policy", "seq-inval", "seq-callback", "pair", "seq-long"]
