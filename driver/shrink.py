"""Selection and minimisation (ddmin-style) of violating traces. Every candidate is
executed in a fresh process by the `run` callable the driver passes in, so crashes and
sanitizer aborts are candidates like any other."""
import copy
import time

MAX_TESTS = 900
MAX_SECONDS = 40.0


def primary_rule(c, prop):
    rules = [v["rule"] for v in c["violations"] if v["rule"].split(".")[0] == prop]
    for pref in ("C08.crash", "C09.hang"):
        if pref in rules:
            return pref
    return rules[0] if rules else c["violations"][0]["rule"]


def select(candidates, limit=24, per_rule=6, kf_probes=()):
    """At most `per_rule` per rule id, `limit` in total. Within a rule: first the runs that fired
    none of the cause probes any recorded finding is matched on (they cannot be attributed to a
    finding, so they are certainly new -- a new defect must not be crowded out of the sample by
    shorter runs of a recorded one), then the shortest traces."""
    kf_probes = set(kf_probes)

    def maybe_known(c):
        return any((c.get("probes") or {}).get(p, 0) > 0 for p in kf_probes)

    by_rule = {}
    for c in candidates:
        for r in sorted(set(v["rule"] for v in c["violations"])):
            by_rule.setdefault(r, []).append(c)
    chosen, seen = [], set()
    for r in sorted(by_rule):
        lst = sorted(by_rule[r], key=lambda c: (maybe_known(c), sum(len(t) for t in c["trace"]["threads"]), c["run"]))
        k = 0
        k_known = 0
        for c in lst:
            key = (c["pop"], c["run"], c.get("build"))
            if key in seen:
                continue
            # runs that may belong to a recorded finding: two per rule are enough to confirm it
            # (the others are counted in the evidence); their traces can be long and slow to shrink
            if maybe_known(c):
                if k_known >= 2:
                    continue
                k_known += 1
            cc = dict(c)
            cc["violations"] = [v for v in c["violations"] if v["rule"] == r] + [v for v in c["violations"] if v["rule"] != r]
            cc["forced_rule"] = r
            chosen.append(cc)
            seen.add(key)
            k += 1
            if k >= per_rule:
                break
    chosen.sort(key=lambda c: (maybe_known(c), sum(len(t) for t in c["trace"]["threads"])))
    return chosen[:limit]


def n_ops(t):
    return sum(len(th) for th in t["threads"])


def remove_ops(trace, tid, idxs):
    """Returns a copy of `trace` without ops `idxs` of thread `tid` (pair: keeps `extra` consistent)."""
    t = copy.deepcopy(trace)
    idxs = set(idxs)
    old = t["threads"][tid]
    t["threads"][tid] = [o for i, o in enumerate(old) if i not in idxs]
    if tid == 0 and t.get("extra"):
        new_extra = []
        for e in t["extra"]:
            if e in idxs:
                continue
            new_extra.append(e - sum(1 for i in idxs if i < e))
        t["extra"] = new_extra
    return t


def drop_thread(trace, tid):
    t = copy.deepcopy(trace)
    del t["threads"][tid]
    if t.get("schedule"):
        t["schedule"] = [s - 1 if s > tid else s for s in t["schedule"] if s != tid]
    return t


class Budget:
    def __init__(self, n, seconds):
        self.n = n
        self.deadline = time.time() + seconds

    def spent(self):
        return self.n <= 0 or time.time() > self.deadline


def minimise(run, trace, rule, seconds=MAX_SECONDS):
    """Returns (minimised trace, result of its final replay), or (None, None) when the
    failure does not replay. Bounded by a number of tests and by wall-clock time; when the
    budget runs out the best trace found so far is returned."""
    budget = Budget(MAX_TESTS, seconds)
    last = {}

    def bad(t):
        if budget.spent():
            return False
        budget.n -= 1
        if t.get("engine") == "Pair" and not t.get("extra"):
            return False
        res = run(t)
        if rule in res["rules"]:
            last["res"] = res
            return True
        return False

    # the failure must replay (a second attempt catches one-off flakiness)
    if not bad(trace):
        budget.deadline = time.time() + seconds
        if not bad(trace):
            return None, None
    budget.deadline = time.time() + seconds
    cur = trace

    # (1) drop whole threads
    if len(cur["threads"]) > 1:
        tid = len(cur["threads"]) - 1
        while tid >= 0 and len(cur["threads"]) > 1:
            cand = drop_thread(cur, tid)
            if bad(cand):
                cur = cand
            tid -= 1

    # (2) ddmin over the ops of each thread
    for tid in range(len(cur["threads"])):
        n = len(cur["threads"][tid])
        chunk = max(1, n // 2)
        while chunk >= 1 and not budget.spent():
            i = 0
            progressed = False
            while i < len(cur["threads"][tid]):
                idxs = range(i, min(len(cur["threads"][tid]), i + chunk))
                cand = remove_ops(cur, tid, idxs)
                if n_ops(cand) > 0 and bad(cand):
                    cur = cand
                    progressed = True
                else:
                    i += chunk
            if chunk == 1 and not progressed:
                break
            chunk = chunk // 2 if chunk > 1 else (1 if progressed else 0)

    # (2b) ddmin over the prologue (warm-up ops the main thread runs before the threads start)
    if cur.get("prologue"):
        chunk = max(1, len(cur["prologue"]) // 2)
        while chunk >= 1 and not budget.spent():
            i = 0
            progressed = False
            while i < len(cur["prologue"]):
                cand = copy.deepcopy(cur)
                del cand["prologue"][i:i + chunk]
                if bad(cand):
                    cur = cand
                    progressed = True
                else:
                    i += chunk
            if chunk == 1 and not progressed:
                break
            chunk = chunk // 2 if chunk > 1 else (1 if progressed else 0)

    # (3) simplify the configuration and arguments
    def try_cfg(mut):
        nonlocal cur
        cand = copy.deepcopy(cur)
        if mut(cand) is False:
            return
        if cand != cur and bad(cand):
            cur = cand

    def set_cfg(k, v):
        def m(t):
            if t["config"].get(k) == v:
                return False
            t["config"][k] = v
        return m

    try_cfg(set_cfg("init_cap", None))
    try_cfg(set_cfg("hasher", "Fixed"))
    if cur["config"].get("shards") is not None:
        try_cfg(set_cfg("shards", None))
    if cur["config"].get("wlock_sp"):
        try_cfg(set_cfg("wlock_sp", False))
    try_cfg(set_cfg("tti", None))
    try_cfg(set_cfg("ttl", None))
    try_cfg(set_cfg("weigher", False))
    try_cfg(set_cfg("cap", None))

    def clear_cb(t):
        t["callback_faults"] = {"clone_panic_at": None, "weigh_panic_at": None}  # (hash/eq panics default to None)
    try_cfg(clear_cb)

    # faults per op
    for tid in range(len(cur["threads"])):
        for i in range(len(cur["threads"][tid])):
            if "f" in cur["threads"][tid][i]:
                def m(t, tid=tid, i=i):
                    t["threads"][tid][i].pop("f", None)
                try_cfg(m)
    # argument simplification
    for tid in range(len(cur["threads"])):
        for i in range(len(cur["threads"][tid])):
            op = cur["threads"][tid][i]["op"]
            if isinstance(op, dict):
                (name, arg), = op.items()
                if name == "Advance":
                    for v in (1, 1000000000, 10000000000):
                        if arg["ns"] > v:
                            def m(t, tid=tid, i=i, v=v):
                                t["threads"][tid][i]["op"]["Advance"]["ns"] = v
                            before = cur
                            try_cfg(m)
                            if cur is not before:
                                break
                if name == "Insert" and arg.get("w", 1) not in (0, 1):
                    def m(t, tid=tid, i=i):
                        t["threads"][tid][i]["op"]["Insert"]["w"] = 1
                    try_cfg(m)

    # (4) schedule: fewer preemptions, shorter tail
    if cur.get("schedule"):
        s = cur["schedule"]
        # truncate tail
        lo = 0
        while len(cur["schedule"]) > 0 and not budget.spent():
            cand = copy.deepcopy(cur)
            cand["schedule"] = cand["schedule"][: len(cand["schedule"]) // 2]
            if bad(cand):
                cur = cand
            else:
                break
        i = 1
        while i < len(cur["schedule"]) and not budget.spent():
            if cur["schedule"][i] != cur["schedule"][i - 1]:
                cand = copy.deepcopy(cur)
                cand["schedule"][i] = cand["schedule"][i - 1]
                if bad(cand):
                    cur = cand
            i += 1

    # final confirmation in a fresh process
    res = run(cur)
    if rule not in res["rules"]:
        res = run(cur)
        if rule not in res["rules"]:
            return None, None
    return cur, res
