"""Known findings: genuine defects of mini-moka that are recorded rather than repaired.

A violation is attributed to a listed finding only if its *minimised* replay (a) violates one of
the finding's rules, (b) fires every cause probe the finding names, and (c) satisfies the
finding's configuration constraints. Anything else is reported as a new violation. `fixed`
entries document repaired defects and match nothing."""
import json, os


def load(path):
    if not os.path.exists(path):
        return []
    doc = json.load(open(path))
    return doc.get("findings", [])


def match(known, prop, rule, tmin, res, run):
    for kf in known:
        if prop not in kf.get("properties", []):
            continue
        if rule not in kf.get("rules", []):
            continue
        probes = res.get("probes", {})
        if any(probes.get(p, 0) == 0 for p in kf.get("cause_probes", [])):
            continue
        anyp = kf.get("cause_probes_any", [])
        only = kf.get("cause_probes_rules")
        if anyp and (only is None or rule in only) and all(probes.get(p, 0) == 0 for p in anyp):
            continue
        cfg_ok = True
        for k, v in kf.get("config", {}).items():
            if tmin["config"].get(k) != v:
                cfg_ok = False
        if not cfg_ok:
            continue
        # loss-type rules: the key the oracle complained about must have been lost through
        # one of the listed paths (e.g. rejected by admission / evicted as a victim), not
        # through any other path (a purge that removes a live entry is a different defect)
        if rule in kf.get("key_loss_rules", []):
            k = (res.get("keys") or {}).get(rule)
            keyed = (res.get("state") or {}).get("keyed", {})
            ok = False
            for pid in kf.get("key_loss_any", []):
                if k is not None and k in keyed.get(pid, []):
                    ok = True
            if not ok:
                continue
        if kf.get("max_threads") and len(tmin["threads"]) > kf["max_threads"]:
            continue
        if kf.get("min_threads") and len(tmin["threads"]) < kf["min_threads"]:
            continue
        return kf
    return None
